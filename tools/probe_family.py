#!/venv/bin/python
"""tools/probe_family.py CHECK 'python expr yielding cases (names: families, spaces, configs, ecase)'  -- run a check's oracle on an ad-hoc family"""
import sys, os
sys.path.insert(0, os.path.dirname(os.path.dirname(os.path.abspath(__file__))))
import importlib
from mc import driver, families, spaces, configs, ecase
mod = importlib.import_module('mc.props.%s' % sys.argv[1].lower())
expr = sys.argv[2]
base = type(mod.CHECK)
class Probe(base):
    def cases(self, tier):
        return eval(expr, {'families': families, 'spaces': spaces, 'configs': configs, 'ecase': ecase})
    def pinned(self):
        return []
os.environ.setdefault('VERIF_EVIDENCE_DIR', '/tmp/ev-probe')
os.environ.setdefault('VERIF_REPLAY_DIR', '/tmp/ev-probe')
os.environ.setdefault('VERIF_BUDGET', '900')
sys.exit(driver.run_check(Probe(), 'quick', 0))
