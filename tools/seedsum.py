#!/usr/bin/env python3
import sys,json
txt=''.join(l for l in open(sys.argv[1]) if not l.startswith('WARNING'))
dec=json.JSONDecoder(); i=0
while i<len(txt):
    while i<len(txt) and txt[i]!='{': i+=1
    if i>=len(txt): break
    try: o,j=dec.raw_decode(txt[i:])
    except Exception: i+=1; continue
    i+=j
    print(o['seed'].split('/')[-1], '| applies', o.get('applies'), '|', o.get('tests'), '| demo clean/patched', o.get('demo_clean_exit'), o.get('demo_patched_exit'), '|', {k:(v['exit'],v['violations']) for k,v in o['checks'].items()})
    for k,v in o['checks'].items():
        for f in v['first'][:1]: print('      ',k,f[:260])
        if 'tail' in v: print('      TAIL',v['tail'][-400:])
print('BATCH-DONE' in txt and 'batch done' or 'batch still running')
