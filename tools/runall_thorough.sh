#!/bin/sh
# sequential thorough run, evidence kept apart (the committed evidence comes from runs in /verif proper)
log=$1; shift
: > $log
for id in "$@"; do
  s=$(date +%s)
  out=$(VERIF_EVIDENCE_DIR=/verif/evidence/thorough VERIF_REPLAY_DIR=/tmp/ev-thorough /verif/bin/check $id --tier thorough 2>&1); rc=$?
  e=$(date +%s)
  echo "$id rc=$rc wall=$((e-s))s" >> $log
  echo "$out" | grep -E "^(C[0-9]+ (quick|thorough)|VIOLATION|violation|KNOWN-FINDING|HARNESS|stats)" | cut -c1-400 >> $log
done
echo ALL-DONE >> $log
