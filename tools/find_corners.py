#!/venv/bin/python
"""Offline search for 'corner' profiles that reach rare arithmetic / procedural events in the statutory rules (events that no
small exhaustive space contains).  The result is the committed list mc/corpus.json, which the step monitors then enumerate
exhaustively (x seats x rules) like any other family.  The search itself is a strided sweep, it is not part of any check.

  tools/find_corners.py SECONDS
"""
import sys, os, json, time, itertools, collections, multiprocessing as mp
sys.path.insert(0, os.path.dirname(os.path.dirname(os.path.abspath(__file__))))
from mc import repo, spaces, ecase, trace
from mc.props import common

import os as _os
RULES = (_os.environ.get('CORNER_RULES') or 'wigm-prf wigm-prf-batch cfer cfer-batch scotland mpls').split()
WANT = 6


def events(t, rule):
    "set of rare events seen in trace t"
    out = set()
    prev = None
    rankings = [list(b.ranking) for b in t.E.ballots]
    rew = [0] * len(rankings)
    for s in common.steps(t):
        if prev is not None and s.ballots and prev.ballots:
            for k, (a, b) in enumerate(zip(prev.ballots, s.ballots)):
                if b[1] < a[1]:
                    rew[k] += 1
                    x = rankings[k][a[0]]
                    sigma = prev.vote[x] - prev.q
                    if b[1] == 0 and sigma > 0:
                        out.add('zero-truncation')
                    if 0 < sigma < 20:
                        out.add('tiny-surplus')
        if s.tag == 'tie' and 'prior stage' in s.msg:
            out.add('prior-stage-tie')
        prev = s
    if max(rew or [0]) >= 3:
        out.add('revalued-3x')
    return out


def work(args):
    shard, deadline = args
    R = spaces.rankings(4, 3)
    found = collections.defaultdict(list)
    idx = 0
    for t5 in (5, 4):
        for combo in itertools.combinations(range(len(R)), t5):
            idx += 1
            if idx % 997 != shard * 61 % 997 and idx % 16 != shard:
                continue
            if idx % 16 != shard:
                continue
            for ms in itertools.product((1, 2, 3, 4), repeat=t5):
                if sum(ms) > 12:
                    continue
                b = tuple((m, R[i]) for m, i in zip(ms, combo))
                for s in (2, 3):
                    text = ecase.text(ecase.make(4, s, b))
                    for rule in RULES:
                        if all(len(found[(rule, e)]) >= WANT for e in ('zero-truncation', 'revalued-3x')):
                            continue
                        t = trace.run(text, {'rule': rule}, snapshots=True)
                        if not t.ok():
                            continue
                        for e in events(t, rule):
                            if len(found[(rule, e)]) < WANT:
                                found[(rule, e)].append({'n': 4, 's': s, 'b': [[m, list(r)] for m, r in b]})
            if time.time() > deadline:
                return dict(found)
    return dict(found)


if __name__ == '__main__':
    secs = float(sys.argv[1]) if len(sys.argv) > 1 else 600
    deadline = time.time() + secs
    with mp.Pool(16) as pool:
        res = pool.map(work, [(i, deadline) for i in range(16)])
    merged = collections.defaultdict(list)
    for r in res:
        for k, v in r.items():
            for c in v:
                if c not in merged[k] and len(merged[k]) < WANT:
                    merged[k].append(c)
    out = [{'rule': k[0], 'event': k[1], 'case': c} for k, v in sorted(merged.items()) for c in v]
    print(json.dumps(collections.Counter((o['rule'], o['event']) for o in out).most_common(), indent=0))
    json.dump(out, open(os.environ.get('CORNER_OUT') or os.path.join(os.path.dirname(os.path.dirname(os.path.abspath(__file__))), 'mc', 'corpus_found.json'), 'w'), indent=0)
