#!/usr/bin/env python3
"""Run checks against a seeded change.

  tools/seedrun.py [--verify] [--tier quick] <seed-dir> [CHECK ...]

<seed-dir> holds patch.diff (+ demo.py, meta.json).  A scratch worktree of /repo's HEAD is created under /tmp,
the patch applied there, and the checks run with VERIF_REPO pointing at it (equivalent to `git -C /repo apply`,
but /repo itself is never touched, so concurrently running checks are not disturbed).  --verify additionally
confirms the seed: baseline suite passes with the patch, demo.py exits 1 with it and 0 without it.
Evidence of these runs goes to a throw-away directory.  The worktree is removed afterwards.
"""
import json, os, subprocess, sys, tempfile, shutil

VERIF = os.path.dirname(os.path.dirname(os.path.abspath(__file__)))


def sh(cmd, **kw):
    return subprocess.run(cmd, shell=True, text=True, capture_output=True, **kw)


def main():
    args = sys.argv[1:]
    verify = '--verify' in args
    args = [a for a in args if a != '--verify']
    tier = 'quick'
    if '--tier' in args:
        i = args.index('--tier'); tier = args[i + 1]; del args[i:i + 2]
    seed = os.path.abspath(args[0])
    checks = args[1:]
    wt = tempfile.mkdtemp(prefix='droop-mut-', dir='/tmp')
    os.rmdir(wt)
    r = sh('git -C /repo worktree add -q --detach %s HEAD' % wt)
    assert r.returncode == 0, r.stderr
    ev = tempfile.mkdtemp(prefix='ev-mut-', dir='/tmp')
    result = {'seed': seed, 'checks': {}}
    try:
        patch = os.path.join(seed, 'patch.diff')
        if verify:
            d0 = sh('/venv/bin/python %s %s' % (os.path.join(seed, 'demo.py'), wt), cwd=seed)
            result['demo_clean_exit'] = d0.returncode
        r = sh('git -C %s apply %s' % (wt, patch))
        if r.returncode != 0:
            r = sh('git -C %s apply -3 %s' % (wt, patch))
        if r.returncode != 0:
            print('PATCH DOES NOT APPLY:', r.stderr); result['applies'] = False
            print(json.dumps(result)); return 2
        result['applies'] = True
        if verify:
            tr = sh('/venv/bin/python -m pytest -q -p no:cacheprovider --timeout=900 2>&1 | tail -1', cwd=wt)
            result['tests'] = tr.stdout.strip()
            d1 = sh('/venv/bin/python %s %s' % (os.path.join(seed, 'demo.py'), wt), cwd=seed)
            result['demo_patched_exit'] = d1.returncode
            result['demo_patched_out'] = d1.stdout.strip()[-300:]
        for c in checks:
            env = dict(os.environ, VERIF_REPO=wt, VERIF_EVIDENCE_DIR=ev, VERIF_REPLAY_DIR=ev)
            r = sh('bin/check %s --tier %s' % (c, tier), cwd=VERIF, env=env)
            viol = [l for l in r.stdout.splitlines() if l.startswith('VIOLATION')]
            first = [l for l in r.stdout.splitlines() if l.startswith('violation:')][:2]
            result['checks'][c] = {'exit': r.returncode, 'violations': len(viol), 'first': [f[:300] for f in first]}
            if r.returncode not in (0, 1):
                result['checks'][c]['tail'] = (r.stdout + r.stderr)[-1500:]
    finally:
        sh('git -C /repo worktree remove --force %s' % wt)
        shutil.rmtree(ev, ignore_errors=True)
    print(json.dumps(result, indent=1))
    return 0


if __name__ == '__main__':
    sys.exit(main())
