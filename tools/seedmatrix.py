#!/usr/bin/env python3
"""tools/seedmatrix.py LOG... -> markdown table of seeded changes x checks (reads seedrun JSON blobs; later logs override earlier ones per (seed, check))"""
import sys, json, os, glob
res = {}
ver = {}
for path in sys.argv[1:]:
    txt = ''.join(l for l in open(path) if not l.startswith('WARNING'))
    dec = json.JSONDecoder(); i = 0
    while i < len(txt):
        while i < len(txt) and txt[i] != '{': i += 1
        if i >= len(txt): break
        try: o, j = dec.raw_decode(txt[i:])
        except Exception: i += 1; continue
        i += j
        if 'seed' not in o: continue
        sd = o['seed'].split('/')[-1]
        if o.get('tests'): ver[sd] = (o.get('tests', ''), o.get('demo_clean_exit'), o.get('demo_patched_exit'))
        for c, v in o.get('checks', {}).items():
            res.setdefault(sd, {})[c] = (v['exit'], (v['first'] or [''])[0])
print('| seed | what it changes (file) | needs | caught by | not caught by |')
print('|---|---|---|---|---|')
for d in sorted(glob.glob(os.path.join(os.path.dirname(os.path.dirname(os.path.abspath(__file__))), 'seeded', '*'))):
    sd = os.path.basename(d)
    try: m = json.load(open(os.path.join(d, 'meta.json')))
    except Exception: m = {}
    summ = (m.get('summary') or '').replace('\n', ' ').replace('|', '/')[:150]
    need = (m.get('needs_to_manifest') or '').replace('\n', ' ').replace('|', '/')[:110]
    r = res.get(sd, {})
    hit = [c for c, (e, f) in sorted(r.items()) if e == 1]
    sig = ''
    if hit:
        f = r[hit[0]][1]
        sig = f.split('::')[0].replace('violation: ', '').strip()
    miss = [c for c, (e, f) in sorted(r.items()) if e == 0]
    err = [c for c, (e, f) in sorted(r.items()) if e not in (0, 1)]
    v = ver.get(sd)
    vtxt = '' if v is None else (' ✔' if ('207 passed' in v[0] and v[1] == 0 and v[2] == 1) else ' (verify: %s %s/%s)' % v)
    print('| %s%s | %s | %s | %s%s | %s%s |' % (sd, vtxt, summ, need, ', '.join(hit) or '—', (' (`%s`)' % sig) if sig else '', ', '.join(miss) or '—', (' ERR:' + ','.join(err)) if err else ''))
