#!/bin/sh
# usage: tools/seedbatch.sh LOG "seed check check ..." "seed check ..." ...   (sequential; each line is one seedrun)
log=$1; shift
for spec in "$@"; do
  set -- $spec
  sd=$1; shift
  VERIF_BUDGET=${VERIF_BUDGET:-400} /verif/tools/seedrun.py --verify /verif/seeded/$sd "$@" >> "$log" 2>&1
done
echo BATCH-DONE >> "$log"
