#!/bin/sh
# tools/runall.sh TIER LOG [IDS...] -- run checks sequentially, print wall time and verdict lines
tier=$1; log=$2; shift; shift
ids=${@:-C01 C02 C04 C05 C06 C07 C08 C09 C10 C11 C12 C13 C14 C17 C18}
: > $log
for id in $ids; do
  s=$(date +%s)
  out=$(/verif/bin/check $id --tier $tier 2>&1); rc=$?
  e=$(date +%s)
  echo "$id rc=$rc wall=$((e-s))s" >> $log
  echo "$out" | grep -E "^(C[0-9]+ (quick|thorough)|VIOLATION|KNOWN-FINDING|HARNESS)" | cut -c1-260 >> $log
done
echo ALL-DONE >> $log
