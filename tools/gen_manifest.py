#!/usr/bin/env python3
"""Regenerate /verif/MANIFEST.json from the table below (python3-vt tools/gen_manifest.py)."""
import json, os, sys
HERE = os.path.dirname(os.path.dirname(os.path.abspath(__file__)))
BASE = "cd /repo && /venv/bin/python -m pytest -ra -q -p no:cacheprovider --timeout=900 --continue-on-collection-errors"

# pid -> (level, technique, text, note)   (only checks that exist and are silent on the unchanged tree)
CHECKS = {}
def add(pid, level, technique, text, note, design):
    CHECKS[pid] = dict(level=level, technique=technique, text=text, note=note, design=design)

add('C01', 'exploration',
    'exhaustive enumeration of bounded election profiles x rules x option menus, real count() on each',
    'Every profile of the bounded spaces (all multisets of <=5 (quick) / <=7 (thorough) unit ballots over 3 candidates, weighted 4- and 5-candidate '
    'profiles, every withdrawn/undeclared subset, every seat number, two tie orders) is counted by the real code under all 11 rules and the full '
    'wigm/meek/warren option menus; termination, seat filling and final decidedness are checked on every run. Exhaustive within the bounds, silent on what lies beyond.',
    'small-scope hypothesis: every branch of every rule is reachable with 3-5 candidates; per-count alarm 20 s; rational meek/warren under a 2 s budget',
    'DESIGN.md section 2 C01')
add('C09', 'model_checking',
    'explicit-state conformance: every consecutive snapshot pair of every enumerated real count must be a transition of a 5-state status automaton; invariants on every state',
    'A per-candidate status automaton (withdrawn/hopeful/pending/elected/defeated + the qpq restart edge) and the seat-commitment invariants are checked on every '
    'recorded step of every count of the C01 space; evidence counts the distinct abstract states and transitions reached and the real traces validated.',
    'status is read from the record snapshots; bounded election sizes',
    'DESIGN.md section 2 C09')
add('C02', 'model_checking',
    'explicit-state conformance: a vote-conservation model is evaluated on every recorded snapshot (tallies + ballot weights) of every enumerated real count',
    'For every count of the bounded space the conservation invariant of the rule family (Gregory: B-2*ulp*B*k <= total <= B, exact under rational; Meek: votes+residual <= B and == B after each distribution; '
    'QPQ: ballot contributions sum to the number elected) is checked on every snapshot; the number of surplus transfers k is measured from ballot snapshots taken beside every logged action.',
    'bounded election sizes; ballots observed through Election.ballots from outside; B taken from the parsed profile (C15 checks that)',
    'DESIGN.md section 2 C02')
add('C04', 'model_checking',
    'explicit-state conformance: an independent quota model (integer arithmetic on stored units) and the has-quota election clauses are evaluated on every snapshot of every enumerated real count',
    'The prescribed quota is recomputed from ballots, seats and the arithmetic scale and compared to the last stored unit at every in-scope snapshot (Meek family: after each distribution; QPQ: from the ballot snapshot); '
    'at every exclusion / first surplus transfer of a round nobody hopeful holds a quota and nobody excluded holds one. Covers 11 rules x arithmetic menus (incl. display < precision) x bounded profiles.',
    'bounded election sizes; "holds a quota" evaluated with the rule\'s own comparison (Guarded half-unit tolerance)',
    'DESIGN.md section 2 C04')
add('C06', 'model_checking',
    'ballot-level reference model stepped in lock-step with every enumerated real Gregory-family count (positions and values of all ballots snapshotted beside every logged action)',
    'A ballot-level model (position, value per ballot) is stepped alongside the real count: tallies must equal the ballots standing with each candidate, skipped entries must be non-continuing, surplus '
    'transfers must re-value exactly the transferred candidate\'s ballots to old*surplus/tally rounded down (never up, at most the two truncations low, exact under rational), exclusions move ballots at unchanged value, '
    'bystanders are untouched, values stay in [0,1] and never increase.',
    'bounded election sizes; observation of Election.ballots[*].index/.weight/.multiplier from outside (exit 2 if gone)',
    'DESIGN.md section 2 C06')
add('C08', 'model_checking',
    'explicit-state conformance: the Meek iteration invariants and exit conditions are evaluated on every post-distribution snapshot of every enumerated real meek / warren / meek-prf count',
    'votes+residual == ballots exactly, keep-factor ranges per status, recorded surplus == recomputed surplus, omega exits have surplus <= omega (omega recomputed from the configuration), stable exits are logged, '
    'exclusions only after a converged (omega/stable/batch) iteration; over the full arithmetic x omega x defeat_batch menu including omega below one unit (forces the stable exit) and equal-rank ballots.',
    'bounded election sizes; rational meek/warren only on the smallest space under a CPU budget',
    'DESIGN.md section 2 C08')
add('C18', 'model_checking',
    'audit automaton stepped over every snapshot of every enumerated real count + independent re-derivation of report, dump and JSON from the record',
    'Every elect/defeat action must name exactly the candidate whose status changes at that step, no status change may go unlisted, the record starts with begin and ends with end agreeing with Election.elected/.defeated; '
    'JSON must equal the record with numbers printed, every dump row and every report Action block (candidate lines and totals) must equal values recomputed from the action.',
    'bounded election sizes; report parsed by its line labels',
    'DESIGN.md section 2 C18')
add('C12', 'exploration',
    'exhaustive enumeration of operand grids x operations x precisions on the real Fixed / Rational classes against exact integer / Fraction arithmetic',
    'Every pair (triple for muldiv) of stored values in a complete grid, for precisions 0-4, every operation and both rounding modes, plus a boundary list (10^p +-1, 10^18, 10^40) crossed with itself at p in {4,5,9,18}, '
    'and the full Rational grid, is evaluated once on the real class and compared with the exact law; result types are checked. Exhaustive over the grid, list-based beyond it.',
    'operand magnitudes beyond the grids are represented only by the boundary list; division by zero excluded',
    'DESIGN.md section 2 C12')
add('C13', 'exploration',
    'exhaustive enumeration: comparison-law bands for six (precision, guard) settings; differential Guarded(p,0) vs Fixed(p) over the operation grid and over every enumerated count; differential guarded vs rational counts under the statistics premise',
    'All stored pairs in the tolerance bands around six anchors are compared with the documented law (incl. the maxDiff/minDiff statistics); every grid operation and every count of U(3,<=4) (+ equal-rank profiles) under wigm/meek/warren must be '
    'identical between guard=0 and fixed; every wigm count of U(3,<=4/5) and meek/warren count of U(3,<=3/4) at three quasi-exact settings must match the rational count action for action whenever its own statistics show no near-tolerance comparison.',
    'premise of the quasi-exact clause read from the count\'s own statistics; bounded election sizes; rational meek/warren under a CPU budget',
    'DESIGN.md section 2 C13')
add('C14', 'exploration',
    'exhaustive enumeration of (class, precision, guard, display, stored value) grids printed by the real classes and judged against exact half-up rounding; renderings of a small election space cross-checked against str()',
    'Every stored value of the grids (all integers in a symmetric range, carry cases, huge values, negatives) is printed under every display setting and the text is parsed and compared with the exact value rounded half-up; '
    'sign, digit count and the guard-digit underscore are checked, and str() must not alter the value. Reports, dumps and JSON of U(3,<=3) x 14 configurations are re-derived from the record with str().',
    'values outside the grids are represented by a boundary list; for negative exact ties both common half-up conventions are accepted (the statement does not choose)',
    'DESIGN.md section 2 C14')
add('C03', 'model_checking',
    'reference-model conformance: six independent implementations of the quoted statutory texts are run beside every enumerated real count and compared stage event by stage event, to the last digit',
    'mc/refmodels/{wigm_prf,meek_prf,scotland,mpls,cfer,qpq}.py re-implement the procedures quoted in the rule modules with plain scaled integers (exact rationals for QPQ) and import nothing from droop. '
    'For every enumerated profile the model trace (quota, sets elected/excluded per stage, surplus transferred, every tally and the non-transferable total after every stage, winners) must equal the projection of the real record; '
    'wigm fixed-4 must equal wigm-prf action for action. Places where the unchanged droop departs from a text are named switches, reported as known findings; anything else is a violation.',
    'interpretive choices where a text is silent follow droop\'s documented reading (listed in each model docstring); bounded election sizes',
    'DESIGN.md section 2 C03')
add('C05', 'exploration',
    'exhaustive enumeration of bounded profiles x every candidate subset S x every k against the Droop-proportionality oracle on the real count',
    'For every enumerated profile, every non-empty proper subset S and every k the premise (solid support above k quotas plus the allowance) is evaluated and, when true, the real count must elect min(k,|S|) members of S; '
    'all 11 rules and non-integer arithmetic menus; spaces include 4-candidate weighted and bullets+pair profiles that put a coalition partner next to a pending surplus.',
    'bounded election sizes; quota = the rule\'s own first recorded quota',
    'DESIGN.md section 2 C05')
add('C07', 'model_checking',
    'decision-model conformance: every exclusion, surplus choice and tie of every enumerated real count (under all tie orders) is checked against an independent decision model; metamorphic tie-order clause',
    'At each exclusion the model recomputes the lowest / sure-loser conditions from the snapshot tallies in the rule\'s own arithmetic, at each surplus transfer the largest-surplus condition, at each tie the tied set, the Scottish prior-stage resolution and the declared order; '
    'each profile is counted under all n! tie orders (3 candidates) and records of tie-free counts must coincide. Families are chosen so that ties, prior-stage resolutions (incl. ones two earlier stages decide differently) and batches occur (counted in the evidence).',
    'bounded election sizes; Scottish >=3-way ties read as droop documents; tie messages parsed',
    'DESIGN.md section 2 C07')
add('C10', 'exploration',
    'exhaustive enumeration of presentation variants (all line permutations, all multiplier splits, layout / comment / nickname menus) of every bounded profile; differential against the canonical presentation',
    'Every variant text is parsed and counted by the real code; the whole record (JSON), dump and report must equal the canonical presentation\'s. The guarded minDiff statistic, which does depend on multiplier grouping (known finding F12), is compared separately so that any other difference is a violation.',
    'bounded election sizes; simple candidate names (C15 covers the lexical menu)',
    'DESIGN.md section 2 C10')
add('C11', 'exploration',
    'exhaustive enumeration: every renumbering of the candidates and every withdrawn subset of every bounded profile; differential by candidate name',
    'Renumbering (names, tie order, ballots carried along) must preserve winners and final tallies by name; a withdrawn subset must give, action by action, the record of the profile with those candidates deleted. 11 rules + option variants, including Scottish multi-stage tie histories and equal-rank ballots.',
    'bounded election sizes',
    'DESIGN.md section 2 C11')
add('C15', 'exploration',
    'exhaustive enumeration of two products of small menus (semantic x presentation) printed to BLT text; the real parser must be the left inverse of the printer',
    'About 360 000 well-formed texts (every withdrawn subset in both notations, undeclared sets, weak rankings, dropped / empty ballots, ballot-id styles, names with spaces / comment markers / UTF-8, tie / nick / droop options, six layouts, seven comment styles, BOM through a file, 255-257 candidates) '
    'are parsed and every public attribute compared with the structure; structures that are not valid elections must be rejected with the profile error.',
    'structures bounded to <= 3 candidates and <= 3 ballot lines (plus the boundary files)',
    'DESIGN.md section 2 C15')
add('C16', 'exploration',
    'exhaustive enumeration of token strings up to a length, of every prefix+suffix and every 1-edit neighbour of a seed corpus, and of a hostile-string list at every position; outcome oracle on the real parser and on Election() for all rules',
    'Every text must either be rejected with ElectionProfileError or yield a profile that satisfies the validity invariants and that every rule\'s Election constructor accepts; any other exception or a hang is a violation. ~3.3 M texts quick.',
    'all texts are represented by the bounded families; 2 s hang threshold',
    'DESIGN.md section 2 C16')
add('C17', 'exploration',
    'exhaustive enumeration of layer assignments (3^4 per option x spellings) on the real Options class against a precedence model; of option sources through Election and the CLI driver; of single and paired option perturbations on statutory rules',
    'Effective value, record layers, unused and overridden lists must follow forced > caller > file > default for every assignment; the 8 statutory rules must produce the identical record, dump and report under every single / pair perturbation from caller, file or both on every enumerated profile.',
    'perturbation values from a fixed menu of 17; bounded election sizes',
    'DESIGN.md section 2 C17')
add('C19', 'fault_enumeration',
    'exhaustive fault injection: KeyboardInterrupt raised at every executed line of package code during count() (sys.settrace), then report/dump/json as the CLI does',
    'For a fixed list of (profile, configuration) pairs every one of the K (900-6000) line events of the count is an interruption point; the interrupt must terminate the count, all three renderers must work, be marked once, and the recorded actions must be a field-for-field prefix of the uninterrupted record. '
    'Election.prog is not stubbed (an interrupt swallowed there is detected).',
    'granularity = executed source lines of package code; determinism of the uninterrupted run is pre-checked per pair',
    'DESIGN.md section 2 C19')
add('C20', 'model_checking',
    'explicit-state BFS to closure over the package-global state (generic scan of module/class data + shared profile objects) driving the real code; every (state, letter) compared with the letter from the fresh state; histories replayed in fresh subprocesses',
    'States are snapshotted and restored, so each (state, letter) pair is executed once and the search closes (about 1200 states, 100 000 transitions for 82 letters): the result holds for histories of any length over the alphabet. '
    'The state vector is found by a generic scan, so a new global added by a change is part of it automatically; shared ElectionProfile objects are part of the state (a count that mutates its profile is caught).',
    'finite alphabet of (profile, rule, options) letters listed in the evidence; state hidden in closures or C objects would escape the scan',
    'DESIGN.md section 2 C20')

NOT_YET = {}   # pid -> reason, filled below for properties without a registered check

def main():
    props = [json.loads(l) for l in open(os.path.join(HERE, 'properties.jsonl'))]
    checks = []
    na = []
    for p in props:
        pid = p['id']
        c = CHECKS.get(pid)
        if c is None:
            na.append({'property_id': pid, 'reason': NOT_YET.get(pid, 'check under construction in this session; not claimed until it is silent on the unchanged tree (technique applies, see DESIGN.md section 2)')})
            continue
        checks.append({
            'property_id': pid,
            'quick_cmd': 'bin/check %s --tier quick' % pid,
            'thorough_cmd': 'bin/check %s --tier thorough' % pid,
            'evidence_file': '/verif/evidence/%s.json' % pid,
            'replay_cmd_template': 'bin/check %s --replay {path}' % pid,
            'engine': 'mc-explorer',
            'level_claimed': {'category': c['level'], 'text': c['text'], 'design_ref': c['design']},
            'level_note': c['note'],
            'technique': c['technique'],
        })
    m = {
        'version': 1,
        'setup_cmd': 'bin/setup',
        'hooks': {
            'guard': 'DROOP_VERIF',
            'enable': 'no source hooks: the harness imports droop from /repo and wraps module attributes from outside (DROOP_VERIF=1 is exported by bin/check for the record only)',
            'baseline_off_cmd': BASE,
            'source_commits': [],
            'add_only': True,
        },
        'engines': [{
            'name': 'mc-explorer', 'path': '/verif/mc',
            'serves_properties': sorted(CHECKS),
            'kind_free_text': 'hand-written explicit-state / bounded-exhaustive explorer in Python driving the real droop code (16 forked workers), with reference models stepped alongside the implementation',
        }],
        'checks': checks,
        'not_applicable': na,
        'notes': 'All checks: /verif/bin/check <ID> --tier quick|thorough; known findings in /verif/known_findings.json; replays under /verif/replays/.',
    }
    json.dump(m, open(os.path.join(HERE, 'MANIFEST.json'), 'w'), indent=1)
    print('checks:', len(checks), 'not_applicable:', len(na))

if __name__ == '__main__':
    main()
