"""PRF Reference Rule: Meek (text A, B.1-B.4, C, T quoted in droop/rules/meek_prf.py).  9 decimal places; products and
quotients rounded up exactly where the text says so, the quota truncated."""
P = 10 ** 9


def mulup(a, b):
    q, r = divmod(a * b, P)
    return q + (1 if r else 0)


def divup(a, b):
    q, r = divmod(a * P, b)
    return q + (1 if r else 0)


def run(n, seats, ballots, tie, withdrawn=()):
    ev = []
    wd = set(withdrawn)
    ballots = [(m, [c for c in r if c not in wd]) for m, r in ballots]
    ballots = [(m, r) for m, r in ballots if r]
    omega = P // 10 ** 6                                   # A
    state = {c: 'H' for c in range(1, n + 1) if c not in wd}
    kf = {c: P for c in state}
    vote = {c: 0 for c in state}

    def first(t):                                          # T
        return min(t, key=tie.index)

    while True:
        ne = sum(1 for s in state.values() if s == 'E')
        nh = sum(1 for s in state.values() if s == 'H')
        if ne >= seats or ne + nh <= seats:                # B.1
            break
        last = None
        while True:
            for c in state:
                if state[c] in 'HE':
                    vote[c] = 0
            resid = 0
            for m, r in ballots:                           # B.2.a
                w = P
                br = m * P
                for c in r:
                    if kf[c]:
                        k = mulup(w, kf[c])
                        vote[c] += k * m
                        w -= k
                        br -= k * m
                        if w <= 0:
                            break
                resid += br
            tot = sum(vote[c] for c in state if state[c] in 'HE')
            q = tot // (seats + 1) + 1                     # B.2.b
            new = {c for c in state if state[c] == 'H' and vote[c] >= q}     # B.2.c
            for c in new:
                state[c] = 'E'
            s = max(0, sum(vote[c] - q for c in state if state[c] == 'E'))    # B.2.d
            if new:                                        # B.2.e
                ev.append(('elect', frozenset(new), dict(vote), q, dict(kf), None, resid))
                break
            if s < omega or (last is not None and s >= last):
                hop = [c for c in state if state[c] == 'H']                   # B.3
                lo = min(vote[c] for c in hop)
                c = first([x for x in hop if vote[x] <= lo + s])
                state[c] = 'D'
                ev.append(('defeat', c, dict(vote), q, dict(kf), s, resid))
                kf[c] = 0
                vote[c] = 0
                break
            last = s
            for c in state:                                # B.2.f
                if state[c] == 'E':
                    kf[c] = divup(mulup(kf[c], q), vote[c])
    full = sum(1 for s in state.values() if s == 'E') >= seats    # C
    for c in state:
        if state[c] == 'H':
            state[c] = 'D' if full else 'E'
    ev.append(('final', frozenset(c for c in state if state[c] == 'E')))
    return ev
