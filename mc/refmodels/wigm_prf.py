"""PRF Reference Rule: WIGM (text sections A-D quoted in droop/rules/wigm_prf.py).  D.4: 4 decimal places, truncation."""
P = 10 ** 4


def run(n, seats, ballots, tie, batch=False, withdrawn=(), d3_top_of_round_only=False):
    """d3_top_of_round_only: deviation switch.  The text tests 'count complete' (D.3) inside B.1 (after electing), inside B.2
    and inside B.4 (after defeating, before transferring); with the switch on it is tested only where droop tests it: at the
    top of each round (and after a sure-loser batch, before its transfer)."""
    mirror = d3_top_of_round_only
    ev = []
    wd = set(withdrawn)
    ballots = [(m, [c for c in r if c not in wd]) for m, r in ballots]
    ballots = [(m, r) for m, r in ballots if r]
    N = sum(m for m, _ in ballots)
    quota = (N * P) // (seats + 1) + 1                     # A.1
    state = {c: 'H' for c in range(1, n + 1) if c not in wd}   # A.2
    bal = [dict(m=m, r=list(r), w=P, at=None) for m, r in ballots]
    vote = {c: 0 for c in state}
    nt = 0

    def complete():                                        # D.3
        ne = sum(1 for s in state.values() if s in 'EP')
        nh = sum(1 for s in state.values() if s == 'H')
        return ne == seats or ne + nh <= seats

    ev.append(('quota', quota))
    fin = complete()                                       # A.3
    for b in bal:                                          # A.4 / A.5
        b['at'] = b['r'][0]
        vote[b['at']] += b['w'] * b['m']
    ev.append(('tally', dict(vote), nt))

    def transfer(b):                                       # D.2
        nonlocal nt
        nxt = None
        i = b['r'].index(b['at'])
        for c in b['r'][i + 1:]:
            if state[c] == 'H':
                nxt = c
                break
        if nxt is None or b['w'] == 0:
            b['at'] = None
            nt += b['w'] * b['m']
        else:
            b['at'] = nxt
            vote[nxt] += b['w'] * b['m']

    def first(tied):                                       # D.1
        return min(tied, key=tie.index)

    while not fin:
        new = {c for c in state if state[c] == 'H' and vote[c] >= quota}     # B.1
        for c in new:
            state[c] = 'P'
        if new:
            ev.append(('elect', frozenset(new)))
        if not mirror and complete():
            break
        if batch:                                          # B.2
            hop = sorted((c for c in state if state[c] == 'H'), key=lambda c: vote[c])
            surplus = sum(vote[c] - quota for c in state if state[c] == 'P')
            needed = seats - sum(1 for s in state.values() if s in 'EP')
            best = None
            for k in range(1, len(hop)):
                S, rest = hop[:k], hop[k:]
                if len(rest) < needed:                     # B.2.a
                    break
                if vote[S[-1]] == vote[rest[0]]:           # B.2.b
                    continue
                if sum(vote[c] for c in S) + surplus < vote[rest[0]]:    # B.2.c
                    best = S
            if best:
                for c in best:
                    state[c] = 'D'
                ev.append(('defeat', frozenset(best)))
                if mirror:
                    if sum(1 for x in state.values() if x == 'H') <= seats - sum(1 for x in state.values() if x in 'EP'):
                        break
                elif complete():
                    break
                for b in bal:
                    if b['at'] in best:
                        transfer(b)
                for c in best:
                    vote[c] = 0
                ev.append(('tally', dict(vote), nt))
                if mirror and complete():
                    break
                continue
        pend = [c for c in state if state[c] == 'P']
        if pend:                                           # B.3
            hi = max(vote[c] for c in pend)
            c = first([x for x in pend if vote[x] == hi])
            s, v = vote[c] - quota, vote[c]
            state[c] = 'E'
            ev.append(('surplus', c, s))
            for b in bal:
                if b['at'] == c:
                    b['w'] = ((b['w'] * s) // P * P) // v   # D.4: truncate the product, then the quotient
                    transfer(b)
            vote[c] = quota
            ev.append(('tally', dict(vote), nt))
            if mirror and complete():
                break
            continue
        hop = [c for c in state if state[c] == 'H']        # B.4
        lo = min(vote[c] for c in hop)
        c = first([x for x in hop if vote[x] == lo])
        state[c] = 'D'
        ev.append(('defeat', frozenset([c])))
        if not mirror and complete():
            break
        for b in bal:
            if b['at'] == c:
                transfer(b)
        vote[c] = 0
        ev.append(('tally', dict(vote), nt))
        if mirror and complete():
            break
    for c in state:                                        # C
        if state[c] == 'P':
            state[c] = 'E'
    full = sum(1 for s in state.values() if s == 'E') >= seats
    rem = {c for c in state if state[c] == 'H'}
    if rem:
        for c in rem:
            state[c] = 'D' if full else 'E'
        ev.append(('defeat' if full else 'elect', frozenset(rem)))
    ev.append(('final', frozenset(c for c in state if state[c] == 'E')))
    return ev
