"""The Scottish Local Government Elections Order 2007, rules 45-52 (text quoted in droop/rules/scotland.py).  Five decimal
places, any remainder ignored (48(3)); quota = ballots / (seats+1), decimals ignored, plus one (46)."""
P = 10 ** 5


def run(n, seats, ballots, tie, withdrawn=(), transfer_after_last_vacancies=False, zero_surplus_is_transferred=True):
    """Interpretive choices adopted from droop's documented reading (not independently verified):
      * 49(2)/51(2) with three or more tied candidates: all tied candidates are kept while looking back, until a stage at which
        exactly one of them holds the extreme tally; 49(3)/51(2)(b) 'by lot' = the [tie] order.
      * zero_surplus_is_transferred: a candidate elected with exactly the quota goes through a (valueless) transfer stage.
    Deviation switch transfer_after_last_vacancies: rule 52(2) says that where the last vacancies can be filled no further
    transfer shall be made; with the switch on the papers of the last excluded candidate are still transferred (as droop does)."""
    ev = []
    wd = set(withdrawn)
    ballots = [(m, [c for c in r if c not in wd]) for m, r in ballots]
    ballots = [(m, r) for m, r in ballots if r]
    N = sum(m for m, _ in ballots)
    quota = (N // (seats + 1) + 1) * P                     # 46
    state = {c: 'H' for c in range(1, n + 1) if c not in wd}
    bal = [dict(m=m, r=list(r), w=P, at=r[0]) for m, r in ballots]
    vote = {c: 0 for c in state}
    nt = 0
    for b in bal:                                          # 45
        vote[b['at']] += b['w'] * b['m']
    ev.append(('quota', quota))
    ev.append(('tally', dict(vote), nt))
    stages = []                                            # tallies at the end of each stage (what the RO recorded)

    def transfer(b):
        nonlocal nt
        i = b['r'].index(b['at'])
        nxt = None
        for c in b['r'][i + 1:]:
            if state[c] == 'H':                            # next available preference for a continuing candidate
                nxt = c
                break
        if nxt is None:
            b['at'] = None
            nt += b['w'] * b['m']
        else:
            b['at'] = nxt
            vote[nxt] += b['w'] * b['m']

    def vacancies():
        return seats - sum(1 for s in state.values() if s in 'EP')

    def continuing():
        return [c for c in state if state[c] == 'H']

    def complete():
        return vacancies() <= 0 or len(continuing()) <= vacancies()

    def break_tie(tied, lowest):
        for st in reversed(stages):                        # most recent preceding stage with a unique extreme
            ext = min(st[c] for c in tied) if lowest else max(st[c] for c in tied)
            at = [c for c in tied if st[c] == ext]
            if len(at) == 1:
                return at[0]
        return min(tied, key=tie.index)                    # by lot

    while True:
        new = {c for c in continuing() if vote[c] >= quota}            # 47
        for c in new:
            state[c] = 'P'
        if new:
            ev.append(('elect', frozenset(new)))
        if complete():                                     # 52
            break
        stages.append(dict(vote))
        pend = [c for c in state if state[c] == 'P' and (zero_surplus_is_transferred or vote[c] > quota)]
        if pend:                                           # 48, 49
            hi = max(vote[c] for c in pend)
            cands = [c for c in pend if vote[c] == hi]
            c = cands[0] if len(cands) == 1 else break_tie(cands, False)
            s, v = vote[c] - quota, vote[c]
            state[c] = 'E'
            ev.append(('surplus', c, s))
            for b in bal:
                if b['at'] == c:
                    b['w'] = (b['w'] * s) // v             # 48(3): A/B to five places, remainder ignored
                    transfer(b)
            vote[c] = quota
            ev.append(('tally', dict(vote), nt))
            continue
        hop = continuing()                                 # 50, 51
        lo = min(vote[c] for c in hop)
        cands = [c for c in hop if vote[c] == lo]
        c = cands[0] if len(cands) == 1 else break_tie(cands, True)
        state[c] = 'D'
        ev.append(('defeat', frozenset([c])))
        if not transfer_after_last_vacancies and complete():            # 50(5), 52(2)
            break
        for b in bal:
            if b['at'] == c:
                transfer(b)
        vote[c] = 0
        ev.append(('tally', dict(vote), nt))
        if complete():
            break
    for c in state:
        if state[c] == 'P':
            state[c] = 'E'
    rem = set(continuing())
    if rem:
        if len(rem) <= vacancies():                        # 52(1)
            for c in rem:
                state[c] = 'E'
            ev.append(('elect', frozenset(rem)))
        else:
            for c in rem:
                state[c] = 'D'
            ev.append(('defeat', frozenset(rem)))
    ev.append(('final', frozenset(c for c in state if state[c] == 'E')))
    return ev
