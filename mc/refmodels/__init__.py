"""Independent reference implementations of the procedures quoted in the rule modules' docstrings.

They use plain Python ints scaled by 10^p with explicit floor / ceiling and import nothing from droop.
Input: n candidates (ids 1..n), seats, ballots [(multiplier, ranking)], tie order (list of ids, earliest first), and,
where the procedure knows them, withdrawn / undeclared sets.  Output: a list of stage events
   ('quota', q) ('tally', {cid: units}, non_transferable) ('elect', frozenset) ('defeat', frozenset)
   ('surplus', cid, units) ('final', frozenset elected)
which the implementation's record is projected onto (mc/props/c03.py).  Every model is literal by default; each place
where the unchanged droop demonstrably departs from the quoted text is a named switch (see DESIGN.md, C03).
"""
