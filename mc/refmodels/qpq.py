"""Quota Preferential by Quotient (Woodall), paragraphs 2.1-2.6 as quoted in droop/rules/qpq.py, in exact rational arithmetic
(the paper prescribes no decimal arithmetic).  After every exclusion the count restarts (all elected candidates become hopeful
again, every ballot has elected nobody) -- droop's reading of the paper's restart rule, adopted here."""
from fractions import Fraction


def run(n, seats, ballots, tie, withdrawn=()):
    ev = []
    wd = set(withdrawn)
    ballots = [(m, [c for c in r if c not in wd]) for m, r in ballots]
    ballots = [(m, r) for m, r in ballots if r]
    state = {c: 'H' for c in range(1, n + 1) if c not in wd}      # 2.1
    bal = [dict(m=m, r=list(r), t=Fraction(0)) for m, r in ballots]   # 2.2

    def top(b):
        for c in b['r']:
            if state[c] == 'H':
                return c
        return None

    def complete():
        left = seats - sum(1 for s in state.values() if s == 'E')
        return left <= 0 or sum(1 for s in state.values() if s == 'H') <= left

    while not complete():
        v = {c: 0 for c in state if state[c] == 'H'}      # 2.3
        t = {c: Fraction(0) for c in v}
        va = 0
        tx = Fraction(0)
        for b in bal:
            c = top(b)
            if c is None:
                tx += b['t'] * b['m']
            else:
                va += b['m']
                v[c] += b['m']
                t[c] += b['t'] * b['m']
        quot = {c: Fraction(v[c]) / (1 + t[c]) for c in v}
        quota = Fraction(va) / (1 + seats - tx)             # 2.4
        hi = max(quot.values())
        if hi > quota:                                      # 2.5a
            c = min([x for x in quot if quot[x] == hi], key=tie.index)
            ev.append(('stage', dict(quot), quota))
            for b in bal:
                if top(b) == c:
                    b['t'] = 1 / quot[c]
            state[c] = 'E'
            ev.append(('elect', frozenset([c])))
        else:                                               # 2.5b
            lo = min(quot.values())
            c = min([x for x in quot if quot[x] == lo], key=tie.index)
            ev.append(('stage', dict(quot), quota))
            state[c] = 'D'
            ev.append(('defeat', frozenset([c])))
            if not complete():                              # restart
                for x in state:
                    if state[x] == 'E':
                        state[x] = 'H'
                for b in bal:
                    b['t'] = Fraction(0)
    rem = {c for c in state if state[c] == 'H'}             # 2.5b / 2.6
    left = seats - sum(1 for s in state.values() if s == 'E')
    if rem:
        if len(rem) <= left:
            for c in rem:
                state[c] = 'E'
            ev.append(('elect', frozenset(rem)))
        else:
            for c in rem:
                state[c] = 'D'
            ev.append(('defeat', frozenset(rem)))
    ev.append(('final', frozenset(c for c in state if state[c] == 'E')))
    return ev
