"""Minneapolis Code of Ordinances 167.70 (multiple-seat STV) with the definitions of 167.20 (text quoted in
droop/rules/mpls.py).  Four decimal places, remainders ignored."""
P = 10 ** 4


def run(n, seats, ballots, tie, withdrawn=(), undeclared=(), multiply_before_divide=False):
    """Interpretive choices adopted from droop's 'Implementation notes' 1-6 (documented, not independently verified): after every
    transfer the tabulation goes back to clause a.; 'equal to' in 167.70(c)(1)a/f is read as 'at least' / 'at most'; the last
    defeated candidate's votes are not transferred; ties by lot = the [tie] order; surpluses are computed for 'any candidates'.
    Deviation switch multiply_before_divide: 167.20 computes the surplus fraction (surplus / votes, four places) first and then
    the transfer value (fraction x current value, four places); with the switch on the current value is multiplied by the surplus
    (four places) and then divided by the votes (four places), as droop's fixed-point operators do."""
    ev = []
    wd = set(withdrawn)
    ud = set(undeclared) - wd
    ballots = [(m, [c for c in r if c not in wd]) for m, r in ballots]
    ballots = [(m, r) for m, r in ballots if r]
    N = sum(m for m, _ in ballots)
    threshold = (N // (seats + 1) + 1) * P                 # 167.20 Threshold
    state = {c: 'H' for c in range(1, n + 1) if c not in wd}
    bal = [dict(m=m, r=list(r), w=P, at=r[0]) for m, r in ballots]
    vote = {c: 0 for c in state}
    nt = 0
    for b in bal:
        vote[b['at']] += b['w'] * b['m']
    ev.append(('quota', threshold))
    ev.append(('tally', dict(vote), nt))

    def transfer(b):
        nonlocal nt
        i = b['r'].index(b['at'])
        nxt = None
        for c in b['r'][i + 1:]:
            if state[c] == 'H':
                nxt = c
                break
        if nxt is None:
            b['at'] = None
            nt += b['w'] * b['m']
        else:
            b['at'] = nxt
            vote[nxt] += b['w'] * b['m']

    def cont():
        return [c for c in state if state[c] == 'H']

    def left():
        return seats - sum(1 for s in state.values() if s == 'E')

    rnd = 1
    while True:
        # a. NEW ROUND
        atq = [c for c in cont() if c not in ud and vote[c] >= threshold]
        if sum(1 for s in state.values() if s == 'E') + len(atq) >= seats:
            if atq:
                ev.append(('elect', frozenset(atq)))
            for c in atq:
                state[c] = 'E'
            break
        rnd += 1
        # b. surplus ; c. DEFEAT CERTAIN LOSERS
        sur = sum(max(0, vote[c] - threshold) for c in state if c not in ud)
        defeat = []
        extra = 0
        if rnd == 2:
            defeat = [c for c in cont() if c in ud]
            extra = sum(b['w'] * b['m'] for b in bal if b['at'] in ud)
        # 167.20 'mathematically impossible to be elected': own votes + everything that could still be transferred (candidates with
        # fewer votes, tied candidates, surplus, undeclared write-ins) stays below the next higher total -- or fewer votes than
        # such a candidate; never so many that the seats could not be filled
        hop = sorted(cont(), key=lambda c: (vote[c], c))
        maxdefeat = len(hop) - left()
        losers = []
        acc = 0
        for i in range(len(hop) - 1):
            if i + 1 > maxdefeat:
                break
            acc += vote[hop[i]]
            if acc + sur + extra < vote[hop[i + 1]]:
                losers = hop[:i + 1]
        defeat += [c for c in losers if c not in defeat]
        if defeat:
            for c in defeat:
                state[c] = 'D'
            ev.append(('defeat', frozenset(defeat)))
            for b in bal:
                if b['at'] in defeat:
                    transfer(b)
            for c in defeat:
                vote[c] = 0
            ev.append(('tally', dict(vote), nt))
            continue
        # d. ELECT HIGHEST SURPLUS
        atq = [c for c in cont() if vote[c] >= threshold]
        if atq:
            hi = max(vote[c] for c in atq)
            c = min([x for x in atq if vote[x] == hi], key=tie.index)
            state[c] = 'E'
            ev.append(('elect', frozenset([c])))
            s, v = vote[c] - threshold, vote[c]
            ev.append(('surplus', c, s))
            frac = (s * P) // v                            # surplus fraction, four places
            for b in bal:
                if b['at'] == c:
                    if multiply_before_divide:
                        b['w'] = ((b['w'] * s) // P * P) // v
                    else:
                        b['w'] = (frac * b['w']) // P      # transfer value, four places
                    transfer(b)
            vote[c] = threshold
            ev.append(('tally', dict(vote), nt))
            continue
        # e. DEFEAT LOWEST CANDIDATE
        if len(cont()) > left():
            hop = cont()
            lo = min(vote[c] for c in hop)
            c = min([x for x in hop if vote[x] == lo], key=tie.index)
            state[c] = 'D'
            ev.append(('defeat', frozenset([c])))
            if len(cont()) > left():                       # not the final round: transfer
                for b in bal:
                    if b['at'] == c:
                        transfer(b)
                vote[c] = 0
                ev.append(('tally', dict(vote), nt))
        # f. FINISH
        if len(cont()) <= left():
            break
    rem = set(cont())
    if rem:
        if len(rem) <= left():
            for c in rem:
                state[c] = 'E'
            ev.append(('elect', frozenset(rem)))
        else:
            for c in rem:
                state[c] = 'D'
            ev.append(('defeat', frozenset(rem)))
    ev.append(('final', frozenset(c for c in state if state[c] == 'E')))
    return ev
