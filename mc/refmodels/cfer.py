"""CfER draft, section 10059 'choice voting' (text quoted in droop/rules/cfer.py).  Five decimal places, truncation."""
P = 10 ** 5


def run(n, seats, ballots, tie, batch=False, withdrawn=(), epsilon_threshold=False, two_step_truncation=False):
    """Deviation switches (both off = the quoted text):
      epsilon_threshold    10059(a)(2) prescribes total/(seats+1) + 1 with the fraction disregarded (an integer); with the switch
                           on the threshold is total/(seats+1) truncated to five places plus 0.00001, as droop computes it.
      two_step_truncation  10059(g)(2): 'previous transfer value, multiplied by the surplus, divided by the votes, truncated to
                           five decimal places' is one truncation; with the switch on the product is truncated first and the
                           quotient again, as droop's fixed-point operators do.
    Ties for the fewest votes are resolved by lot = the [tie] order (10057(b))."""
    ev = []
    wd = set(withdrawn)
    ballots = [(m, [c for c in r if c not in wd]) for m, r in ballots]
    ballots = [(m, r) for m, r in ballots if r]
    N = sum(m for m, _ in ballots)
    if epsilon_threshold:
        threshold = (N * P) // (seats + 1) + 1
    else:
        threshold = (N // (seats + 1) + 1) * P             # (a)(2)
    state = {c: 'H' for c in range(1, n + 1) if c not in wd}      # H continuing, P elected with surplus, E elected, D defeated
    bal = [dict(m=m, r=list(r), w=P, at=r[0]) for m, r in ballots]
    vote = {c: 0 for c in state}
    nt = 0
    for b in bal:                                          # (a)(1)
        vote[b['at']] += b['w'] * b['m']
    ev.append(('quota', threshold))
    ev.append(('tally', dict(vote), nt))

    def transfer(b):
        nonlocal nt
        i = b['r'].index(b['at'])
        nxt = None
        for c in b['r'][i + 1:]:
            if state[c] == 'H':
                nxt = c
                break
        if nxt is None:
            b['at'] = None
            nt += b['w'] * b['m']
        else:
            b['at'] = nxt
            vote[nxt] += b['w'] * b['m']

    def cont():
        return [c for c in state if state[c] == 'H']

    def nelected():
        return sum(1 for s in state.values() if s in 'EP')

    first_round = True
    while True:
        if first_round:                                    # (c)
            first_round = False
            if len(cont()) <= seats:
                if cont():
                    ev.append(('elect', frozenset(cont())))
                for c in cont():
                    state[c] = 'E'
                break
        new = {c for c in cont() if vote[c] >= threshold}  # (d)
        for c in new:
            state[c] = 'P' if vote[c] > threshold else 'E'
        if new:
            ev.append(('elect', frozenset(new)))
        if nelected() >= seats:                            # (e)
            rem = set(cont())
            for c in state:
                if state[c] == 'P':
                    state[c] = 'E'
            if rem:
                for c in rem:
                    state[c] = 'D'
                ev.append(('defeat', frozenset(rem)))
            break
        defeated = set()
        if batch:                                          # (f), (k)
            total_surplus = sum(vote[c] - threshold for c in state if state[c] == 'P')
            cs = cont()
            most = max(vote[c] for c in cs)
            best = None
            for level in sorted({vote[c] for c in cs}):
                S = [c for c in cs if vote[c] <= level]    # defeat set: a candidate and all with fewer or equal votes
                rest = [c for c in cs if vote[c] > level]
                if not rest:
                    break
                if len(rest) + nelected() < seats:         # (k)(1)
                    break
                sumS = sum(vote[c] for c in S)
                if not sumS + total_surplus < min(vote[c] for c in rest):       # (k)(2)
                    continue
                ok = (nelected() == seats - 1                                  # (3)(A)
                      or len(rest) + nelected() == seats                      # (3)(B)
                      or sumS + total_surplus < threshold - most              # (3)(C)
                      or (total_surplus == 0 and sumS - max(vote[c] for c in S) < threshold - most))   # (3)(D)
                if ok:
                    best = S
            if best:
                defeated = set(best)
        transferred = False
        if not defeated:
            pend = [c for c in state if state[c] == 'P']
            if pend:                                       # (g)
                for c in sorted(pend):
                    s, v = vote[c] - threshold, vote[c]
                    ev.append(('surplus', c, s))
                    for b in bal:
                        if b['at'] == c:
                            if two_step_truncation:
                                b['w'] = ((b['w'] * s) // P * P) // v
                            else:
                                b['w'] = (b['w'] * s) // v
                            transfer(b)
                    vote[c] = threshold
                    state[c] = 'E'
                    ev.append(('tally', dict(vote), nt))
                transferred = True
        if not defeated and not transferred:               # (h)
            cs = cont()
            lo = min(vote[c] for c in cs)
            defeated = {min([c for c in cs if vote[c] == lo], key=tie.index)}
        if defeated:                                       # (i)
            for c in defeated:
                state[c] = 'D'
            ev.append(('defeat', frozenset(defeated)))
            if len(cont()) + nelected() <= seats:          # (i)(1)
                rem = set(cont())
                for c in state:
                    if state[c] == 'P':
                        state[c] = 'E'
                if rem:
                    for c in rem:
                        state[c] = 'E'
                    ev.append(('elect', frozenset(rem)))
                break
            for b in bal:                                  # (i)(2)
                if b['at'] in defeated:
                    transfer(b)
            for c in defeated:
                vote[c] = 0
            ev.append(('tally', dict(vote), nt))
    ev.append(('final', frozenset(c for c in state if state[c] in 'EP')))
    return ev
