"""Import droop from the working tree under test ($VERIF_REPO, default /repo).

No source hooks are needed: every seam is a module attribute wrapped from outside.
The environment variable DROOP_VERIF=1 is set for the record (MANIFEST.hooks.guard);
droop itself never reads it.
"""
import os
import sys

sys.dont_write_bytecode = True
os.environ.setdefault('DROOP_VERIF', '1')
REPO = os.path.abspath(os.environ.get('VERIF_REPO', '/repo'))
if sys.path[0] != REPO:
    sys.path.insert(0, REPO)

import droop                                   # noqa: E402
from droop.election import Election            # noqa: E402
from droop.profile import ElectionProfile, ElectionProfileError   # noqa: E402
from droop.record import ElectionRecord        # noqa: E402
from droop.options import Options              # noqa: E402
from droop.common import UsageError, ElectionError   # noqa: E402
from droop import values                       # noqa: E402
from droop.values import fixed, guarded, rational    # noqa: E402

assert os.path.abspath(droop.__file__).startswith(REPO + os.sep), (droop.__file__, REPO)

#  meek/warren print progress dots for exact arithmetic; silence them
Election.prog = staticmethod(lambda msg: None)

RULES = sorted(droop.electionRuleNames())
Fixed = fixed.Fixed
Guarded = guarded.Guarded
Rational = rational.Rational
