"""Run one real count and return its complete step-by-step trace.

The election record is itself an ordered list of state snapshots (one per logAction);
ElectionRecord.action is additionally wrapped *from outside* so that a snapshot of every
ballot (index, weight) is taken beside every non-log action.
"""
import signal
from fractions import Fraction

from . import repo
from .repo import Election, ElectionProfile, ElectionRecord

_SIDE = None
_orig_action = ElectionRecord.action


def _action(self, tag, msg):
    _orig_action(self, tag, msg)
    if _SIDE is not None:
        if tag == 'log':
            _SIDE.append(None)
        else:
            E = self.E
            _SIDE.append((tuple((b.index, getattr(b.weight, '_value', b.weight)) for b in E.ballots),
                          tuple(getattr(c.vote, '_value', c.vote) for c in E.C if c.state == 'withdrawn')))


ElectionRecord.action = _action


class CountTimeout(BaseException):
    "a count exceeded its alarm"


def _alarm(signum, frame):
    raise CountTimeout()


signal.signal(signal.SIGALRM, _alarm)


def arith(V):
    "return (kind, scale, units) for an arithmetic class as currently configured"
    name = V.name
    if name in ('fixed', 'integer'):
        return name, 10 ** V.precision, _stored
    if name == 'guarded':
        return name, 10 ** (V.precision + V.guard), _stored
    return name, 1, _frac


def _stored(v):
    return v._value


def _frac(v):
    return Fraction(v)


class Trace:
    __slots__ = ('text', 'options', 'profile', 'E', 'stage', 'exc', 'actions', 'side', 'kind',
                 'scale', 'units', 'V', 'rule', 'method', 'geps')

    def ok(self):
        return self.exc is None

    def unit_value(self, v):
        "exact value of a droop number as a Fraction"
        return Fraction(self.units(v), self.scale)


TIMEOUTS = 0     # per worker process: after three 20 s alarms every further count gets 2 s (a non-terminating
                 # change would otherwise cost 20 s per count; 2 s is still ~1000x a normal count)


def run(text, options, alarm=20, snapshots=True, count=True):
    """parse text, construct an Election with options (a dict; copied), count it.
    Never raises for failures of the code under test: the outcome is in .stage/.exc"""
    global _SIDE, TIMEOUTS
    if TIMEOUTS >= 3:
        alarm = min(alarm, 2)
    t = Trace()
    t.text = text
    t.options = dict(options)
    t.profile = t.E = t.exc = t.V = None
    t.actions = []
    t.side = []
    t.stage = 'parse'
    t.kind = t.scale = t.units = None
    t.rule = t.options.get('rule')
    t.method = None
    _SIDE = t.side if snapshots else None
    signal.alarm(alarm)
    try:
        t.profile = ElectionProfile(data=text)
        t.stage = 'construct'
        t.E = Election(t.profile, dict(options))
        t.V = t.E.V
        t.kind, t.scale, t.units = arith(t.V)
        t.geps = 0
        if t.kind == 'guarded':
            t.geps = max(1, (10 ** t.V.guard) // 2)
        t.method = t.E.rule.method
        if count:
            t.stage = 'count'
            t.E.count()
        t.stage = 'done'
    except CountTimeout as e:
        t.exc = e
        if alarm >= 20:
            TIMEOUTS += 1
    except Exception as e:     # pylint: disable=broad-except
        t.exc = e
    finally:
        signal.alarm(0)
        _SIDE = None
    if t.E is not None:
        t.actions = t.E.erecord['actions']
    return t


def status(cs):
    "status of one cstate entry: withdrawn/hopeful/pending/elected/defeated"
    s = cs['state']
    if s == 'elected' and cs.get('pending'):
        return 'pending'
    return s


def status_vector(A):
    cs = A['cstate']
    return tuple(status(cs[c]) for c in sorted(cs))
