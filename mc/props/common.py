"""helpers shared by the election-level property checks"""
from .. import ecase, trace, configs
from ..driver import h64


def one_cfg(case, cfg):
    c = dict(case)
    c['cfgs'] = [cfg]
    return c


def runs(case, snapshots=True, alarm=20):
    "run the case under each of its cfgs; yield (cfg, Trace, single-cfg-case)"
    text = ecase.text(case)
    for cfg in case['cfgs']:
        t = trace.run(text, cfg, alarm=alarm, snapshots=snapshots)
        yield cfg, t, one_cfg(case, cfg)


def exc_sig(t):
    "a stable signature for the exception a run ended with: type and innermost droop frame"
    e = t.exc
    if isinstance(e, trace.CountTimeout):
        return 'timeout@%s' % t.stage
    where = '?'
    tb = e.__traceback__
    while tb is not None:
        fn = tb.tb_frame.f_code.co_filename
        if '/droop/' in fn or fn.endswith('Droop.py'):
            where = '%s:%s' % (fn.rsplit('/droop/', 1)[-1], tb.tb_frame.f_code.co_name)
        tb = tb.tb_next
    return '%s@%s:%s' % (type(e).__name__, t.stage, where)


def nontrivial_trace(t):
    "a count that was not decided at begin: it has a transfer, an exclusion before the epilogue, or >1 round"
    rounds = 0
    for A in t.actions:
        tag = A['tag']
        if tag == 'transfer':
            return True
        if tag == 'round':
            rounds += 1
            if rounds > 1:
                return True
        if tag == 'defeat' and 'remaining' not in A['msg']:
            return True
    return False


def named(A, names):
    "the candidate id named by an elect/defeat/unpend action ('<msg>: <name>'), or None"
    msg = A['msg']
    for cid, nm in names.items():
        if msg.endswith(': ' + nm):
            return cid
    return None


class Step:
    "one non-log action of a trace, numbers in stored units (ints; Fractions for rational)"
    __slots__ = ('i', 'tag', 'msg', 'round', 'st', 'vote', 'q', 'nt', 'residual', 'surplus', 'votes',
                 'ballots', 'wdvotes', 'A')


def steps(t):
    "list of Step for the non-log actions of trace t"
    u = t.units
    out = []
    for i, A in enumerate(t.actions):
        if A['tag'] == 'log':
            continue
        s = Step()
        s.i = i
        s.A = A
        s.tag = A['tag']
        s.msg = A['msg']
        s.round = A['round']
        cs = A['cstate']
        s.st = {c: trace.status(d) for c, d in cs.items()}
        s.vote = {c: u(d['vote']) for c, d in cs.items() if 'vote' in d}
        s.q = u(A['quota']) if A.get('quota') is not None else None
        s.nt = u(A['nt_votes']) if 'nt_votes' in A else None
        s.residual = u(A['residual']) if A.get('residual') is not None else None
        s.surplus = u(A['surplus']) if A.get('surplus') is not None else None
        s.votes = u(A['votes']) if A.get('votes') is not None else None
        sd = t.side[i] if i < len(t.side) else None
        s.ballots = sd[0] if sd else None
        s.wdvotes = sd[1] if sd else None
        out.append(s)
    return out


def names_of(t):
    return {c.cid: c.name for c in t.E.C}


def has_quota(t, v, q):
    "does tally v (units) hold the quota q, as the rule itself evaluates it?"
    if t.kind == 'rational':
        return v > q
    if t.kind == 'guarded' and t.V.guard:
        return v - q >= t.geps          # Guarded '>' : differ by at least half a unit of precision
    return v >= q


def g_eq(t, a, b):
    "a == b in the arithmetic's own comparison (Guarded tolerance), on units"
    if t.kind == 'guarded':
        return abs(a - b) < t.geps
    return a == b


def g_lt(t, a, b):
    "a < b in the arithmetic's own comparison"
    if t.kind == 'guarded':
        return b - a >= t.geps
    return a < b
