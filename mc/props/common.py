"""helpers shared by the election-level property checks"""
from .. import ecase, trace, configs
from ..driver import h64


def one_cfg(case, cfg):
    c = dict(case)
    c['cfgs'] = [cfg]
    return c


def runs(case, snapshots=True, alarm=20):
    "run the case under each of its cfgs; yield (cfg, Trace, single-cfg-case)"
    text = ecase.text(case)
    for cfg in case['cfgs']:
        t = trace.run(text, cfg, alarm=alarm, snapshots=snapshots)
        yield cfg, t, one_cfg(case, cfg)


def exc_sig(t):
    "a stable signature for the exception a run ended with: type and innermost droop frame"
    e = t.exc
    if isinstance(e, trace.CountTimeout):
        return 'timeout@%s' % t.stage
    where = '?'
    tb = e.__traceback__
    while tb is not None:
        fn = tb.tb_frame.f_code.co_filename
        if '/droop/' in fn or fn.endswith('Droop.py'):
            where = '%s:%s' % (fn.rsplit('/droop/', 1)[-1], tb.tb_frame.f_code.co_name)
        tb = tb.tb_next
    return '%s@%s:%s' % (type(e).__name__, t.stage, where)


def nontrivial_trace(t):
    "a count that was not decided at begin: it has a transfer, an exclusion before the epilogue, or >1 round"
    rounds = 0
    for A in t.actions:
        tag = A['tag']
        if tag == 'transfer':
            return True
        if tag == 'round':
            rounds += 1
            if rounds > 1:
                return True
        if tag == 'defeat' and 'remaining' not in A['msg']:
            return True
    return False


def named(A, names):
    "the candidate id named by an elect/defeat/unpend action ('<msg>: <name>'), or None"
    msg = A['msg']
    for cid, nm in names.items():
        if msg.endswith(': ' + nm):
            return cid
    return None
