"""C16 -- any text is either a valid profile or a clean profile error.

Explorer (every text is handed to the real ElectionProfile(data=...)):
  soups      every token string of length <= L over the BLT alphabet SIGMA (quick: L <= 4 over all 25 tokens, L = 5 over 16;
             thorough: L = 5 over all, L = 6 over 14), joined by single spaces and by newlines
  prefixes   every token-prefix of each seed file followed by every token string of length <= 2 (thorough 3) over SIGMA
             (reaches the name / title / source / comment states, which need a long valid prefix)
  mutations  a seed corpus of valid files (one per feature, printed by C15's printer) x every token position x
             {delete, replace by s, insert s before} for every s in SIGMA + the seed's own tokens (thorough: also every pair of
             deletions/replacements at two positions for three seeds); truncation at every token and at every character
  bytes      files offered by path holding bytes that are not UTF-8 (Latin-1, UTF-16, binary junk, truncated sequences), a missing file
  hostile    huge but parseable candidate counts, BOM, NUL, astral characters, non-ASCII digits, superscript digits, lone quote, 10^5-digit numbers, '-0', CR only,
             form feeds ... inserted at (and replacing) every token position of three seeds
Oracle: the outcome is an accepted profile that satisfies the validity invariants (ids in range, no withdrawn or repeated id in a
ranking, seats <= eligible, ballots >= eligible, tie order (a total order) / nicknames / names cover exactly the candidates) or ElectionProfileError;
any other exception, or more than 2 s, is a violation.  Every accepted profile with no embedded [droop] options is handed to
Election(profile, {rule: r}) for all 11 rules: the constructor must not raise.
"""
import itertools
import signal
import time
from .. import repo, configs, trace
from ..repo import ElectionProfile, ElectionProfileError, Election
from ..driver import Check, h64
from . import c15

_LIMITED = False
SIGMA = ['0', '1', '2', '3', '-1', '-3', '1=2', '1=1', '(a)', '(b', 'c)', '[tie', '[nick', '[withdrawn', '[undeclared', '[droop', 'x]', ']',
         '"A"', '"B', 'C"', '=', '#', '/*', '*/']
SIGMA16 = ['0', '1', '2', '-1', '1=2', '(a)', '[tie', '[nick', '[withdrawn', '2]', ']', '"A"', '"B', 'C"', '#', '/*']
SIGMA14 = ['0', '1', '2', '-1', '(a)', '[tie', '[withdrawn', '2]', ']', '"A"', '"B', 'C"', '/*', '*/']
HOSTILE = ['300000000000', '99999999', '65536', '﻿', '\x00', '1\x00', '𝟙', '😀', '١', '٢', '²', '³', '①', '"', '""', '"""', '9' * 100000, '-0', '+1', '1.0', '1e1', '0x1',
           '\r', '\x0c', '\x0b1', ' 1', '１', '-', '--1', '[', '[]', '[tie]', '[tie', '(', ')', '()', '1=', '=1', '1==2', '1=2=3=1', '%s', '{0}',
           '\\', '퟿', 'ß', '[droop', '[nick 1 2]', '0' * 400]


def seeds():
    out = []
    base = dict(n=3, s=1, wd=[], ud=[], names=['A', 'B C', 'D'], title='T t')
    out.append(dict(base, ballots=[(2, (1, 2, 3)), (1, (2,)), (1, (3, 1))]))
    out.append(dict(base, wd=[2], ballots=[(2, (1, 2, 3)), (1, (2,)), (3, (3, 1))]))
    out.append(dict(base, ud=[3], tie=(3, 1, 2), ballots=[(2, (1, 2)), (2, (2, 1)), (1, (3,))]))
    out.append(dict(base, nick=['a', 'b', 'c'], tie=(2, 3, 1), wd=[3], ballots=[(2, (1, 2)), (1, (2, 3, 1))]))
    out.append(dict(base, droop=['meek', 'precision=5'], ballots=[(3, (1,)), (1, (2, 1))], source='src', comment='a comment'))
    out.append(dict(base, ballots=[(1, ((1, 2), 3)), (2, (3, (1, 2)))], source='only source'))
    out.append(dict(base, s=2, ballots=[(1, (1, 2, 3)), (1, (2, 3)), (1, (3,)), (1, (1,))]))
    out.append(dict(n=1, s=1, wd=[], ud=[], names=['Only'], title='T', ballots=[(1, (1,))]))
    out.append(dict(n=2, s=2, wd=[], ud=[], names=['A', 'B'], title='T', ballots=[(1, (1, 2)), (1, (2,))]))
    texts = []
    for i, st in enumerate(out):
        texts.append(c15.lines_of(st, 'minus' if i % 2 == 0 else 'option', None, use_nick=bool(st.get('nick'))))
    ids = dict(base, ballots=[(1, (1, 2)), (1, (2, 1)), (1, (3,))])
    texts.append(c15.lines_of(ids, 'minus', 'tight'))
    texts.append(c15.lines_of(ids, 'minus', 'loose'))
    return [[t for l in L for t in l] for L in texts]


class C16(Check):
    pid = 'C16'
    level = 'exploration'
    rule = ('complete enumeration of the four text families of the module docstring; evaluations = texts parsed (+ Election constructions); '
            'distinct_nontrivial = distinct texts that get past the header (candidate count and seats accepted), counted by hash')
    assumptions = ['"every text" is represented by bounded token strings over the BLT alphabet, all 1-edit neighbours of a seed corpus and a list of hostile strings',
                   'a parse that needs more than 2 s is reported as a hang']
    budget = {'quick': 240, 'thorough': 3000}

    def cases(self, tier):
        q = tier == 'quick'
        # soups: case = (alphabet name, length, first token)
        for L in range(0, 5):
            for first in range(len(SIGMA)):
                yield {'k': 'soup', 'sig': 'SIGMA', 'L': L, 'first': first}
                if L == 0:
                    break
        for first in range(len(SIGMA16) if q else len(SIGMA)):
            yield {'k': 'soup', 'sig': 'SIGMA16' if q else 'SIGMA', 'L': 5, 'first': first}
        if not q:
            for first in range(len(SIGMA14)):
                for second in range(len(SIGMA14)):
                    yield {'k': 'soup', 'sig': 'SIGMA14', 'L': 6, 'first': first, 'second': second}
        S = seeds()
        for si, toks in enumerate(S):
            for p in range(len(toks) + 1):
                yield {'k': 'prefix', 'seed': si, 'p': p, 'L': 2 if q else 3}
                yield {'k': 'mutate', 'seed': si, 'p': p}
            yield {'k': 'trunc', 'seed': si}
        for si in (0, 3, 5):
            for p in range(len(S[si]) + 1):
                yield {'k': 'hostile', 'seed': si, 'p': p}
        yield {'k': 'bytes'}
        if not q:
            for si in (1, 3, 9):
                for p in range(len(S[si])):
                    yield {'k': 'mutate2', 'seed': si, 'p': p}

    # ------------------------------------------------------------------
    def judge(self, text, acc, case):
        acc.evaluations += 1
        t0 = time.time()
        signal.alarm(5)
        try:
            try:
                p = ElectionProfile(data=text)
            finally:
                signal.alarm(0)
        except ElectionProfileError:
            if time.time() - t0 > 2:
                acc.violation('C16|slow', 'parse took %.1f s' % (time.time() - t0), dict(case, text=text[:300000]))
            return None
        except trace.CountTimeout:
            acc.violation('C16|hang', 'parser did not return within 5 s on %r' % text[:300], dict(case, text=text[:300000]))
            return None
        except Exception as e:     # pylint: disable=broad-except
            tb = e.__traceback__
            where = '?'
            while tb is not None:
                if '/droop/' in tb.tb_frame.f_code.co_filename:
                    where = tb.tb_frame.f_code.co_name
                tb = tb.tb_next
            acc.violation('C16|parser-raises|%s|%s' % (type(e).__name__, where), 'ElectionProfile raised %r (not a profile error) on %r' % (e, text[:300]),
                          dict(case, text=text[:300000]))
            return None
        if time.time() - t0 > 2:
            acc.violation('C16|slow', 'parse took %.1f s' % (time.time() - t0), dict(case, text=text[:300000]))
        acc.nontrivial.add(h64(text))
        # invariants of an accepted profile
        n = p.nCand
        allc = set(range(1, n + 1)) if isinstance(n, int) else set()
        why = None
        if not isinstance(n, int) or not isinstance(p.nSeats, int) or p.nSeats < 1 or p.nSeats > len(p.eligible):
            why = 'seats %r vs eligible %r' % (p.nSeats, sorted(p.eligible))
        elif set(p.eligible) | set(p.withdrawn) != allc or set(p.eligible) & set(p.withdrawn) or not set(p.undeclared) <= allc:
            why = 'eligible/withdrawn/undeclared sets %r %r %r do not partition 1..%d' % (sorted(p.eligible), sorted(p.withdrawn), sorted(p.undeclared), n)
        elif p.nBallots < len(p.eligible):
            why = '%d ballots for %d eligible candidates' % (p.nBallots, len(p.eligible))
        elif set(p.tieOrder) != allc or len(set(p.tieOrder.values())) != n or set(p.nickName) != allc or set(p.candidateName) != allc:
            why = 'tie order / nicknames / names do not cover the candidates: %r %r' % (p.tieOrder, p.nickName)
        else:
            tot = 0
            for b in p.ballotLines:
                r = list(b.ranking)
                tot += b.multiplier
                if not r or len(set(r)) != len(r) or any(c not in allc or c in p.withdrawn for c in r) or b.multiplier < 1:
                    why = 'ballot %r x %r' % (r, b.multiplier)
            for b in p.ballotLinesEqual:
                flat = [c for g in b.ranking for c in g]
                tot += b.multiplier
                if not flat or len(set(flat)) != len(flat) or any(c not in allc or c in p.withdrawn for c in flat) or any(not g for g in b.ranking):
                    why = 'equal-rank ballot %r' % (b.ranking,)
            if why is None and tot != p.nBallots:
                why = 'nBallots %d but the kept multipliers sum to %d' % (p.nBallots, tot)
        if why:
            acc.violation('C16|accepted-invalid', 'accepted profile violates the validity invariants (%s): %r' % (why, text[:300]), dict(case, text=text[:300000]))
            return p
        if not p.options:
            for r in configs.ALL11:
                acc.evaluations += 1
                try:
                    Election(p, {'rule': r})
                except Exception as e:     # pylint: disable=broad-except
                    acc.violation('C16|election-constructor|%s' % type(e).__name__, 'Election(profile, rule=%s) raised %r for the accepted file %r' % (r, e, text[:300]),
                                  dict(case, text=text[:300000]))
                    break
        return p

    def judge_bytes(self, data, acc, case, label):
        "a ballot file offered by path with arbitrary bytes: a profile or the profile error, nothing else"
        import os
        import tempfile
        acc.evaluations += 1
        fd, path = tempfile.mkstemp(suffix='.blt')
        try:
            with os.fdopen(fd, 'wb') as f:
                f.write(data)
            signal.alarm(5)
            try:
                ElectionProfile(path=path)
            finally:
                signal.alarm(0)
        except ElectionProfileError:
            pass
        except trace.CountTimeout:
            acc.violation('C16|hang|file', 'reading a file of %s did not return within 5 s' % label, dict(case, only=label))
        except Exception as e:     # pylint: disable=broad-except
            acc.violation('C16|file-raises|%s' % type(e).__name__, 'ElectionProfile(path=...) raised %r (not a profile error) for a file of %s' % (e, label), dict(case, only=label))
        finally:
            os.unlink(path)

    def both(self, toks, acc, case):
        self.judge(' '.join(toks), acc, case)
        if len(toks) > 1:
            self.judge('\n'.join(toks) + '\n', acc, case)

    def check(self, case, acc):
        global _LIMITED
        if not _LIMITED:
            # a parser that starts allocating per declared candidate must fail as MemoryError here, not take the machine down
            import resource
            try:
                resource.setrlimit(resource.RLIMIT_AS, (3 * 2 ** 30, 3 * 2 ** 30))
            except (ValueError, OSError):
                pass
            _LIMITED = True
        if 'text' in case:
            self.judge(case['text'], acc, {k: v for k, v in case.items() if k != 'text'})
            return
        k = case['k']
        S = seeds()
        if k == 'soup':
            sig = {'SIGMA': SIGMA, 'SIGMA16': SIGMA16, 'SIGMA14': SIGMA14}[case['sig']]
            L = case['L']
            if L == 0:
                self.judge('', acc, case)
                self.judge(' \n ', acc, case)
                return
            head = [sig[case['first']]]
            if 'second' in case:
                head.append(sig[case['second']])
            for rest in itertools.product(sig, repeat=L - len(head)):
                self.both(head + list(rest), acc, case)
            if case['first'] == 1:
                acc.sample({'k': 'soup', 'alphabet': case['sig'], 'length': L, 'example': ' '.join(head + list(rest))})
        elif k == 'prefix':
            toks = S[case['seed']][:case['p']]
            for L in range(0, case['L'] + 1):
                for rest in itertools.product(SIGMA, repeat=L):
                    self.judge(' '.join(toks + list(rest)), acc, case)
        elif k == 'mutate':
            toks = S[case['seed']]
            p = case['p']
            alpha = SIGMA + sorted(set(toks) - set(SIGMA)) + ['4', '00', '01', '-2', '"', '2=3', '2=2', '3=3', '3=1=2', '(', ')', 'a', 'b]', '[tie]', '[bogus', '"T"', '/*x*/', '#x']
            if p < len(toks):
                self.both(toks[:p] + toks[p + 1:], acc, case)
                for s in alpha:
                    self.both(toks[:p] + [s] + toks[p + 1:], acc, case)
            for s in alpha:
                self.both(toks[:p] + [s] + toks[p:], acc, case)
            if p == 3:
                acc.sample({'k': 'mutate', 'seed_text': ' '.join(toks), 'position': p, 'alphabet_size': len(alpha)})
        elif k == 'mutate2':
            toks = S[case['seed']]
            p = case['p']
            alpha = SIGMA14 + ['3', '-3', '1=1', '"', 'x]']
            for p2 in range(p + 1, len(toks)):
                for s1 in alpha + [None]:
                    for s2 in alpha + [None]:
                        t2 = list(toks)
                        t2[p2:p2 + 1] = [] if s2 is None else [s2]
                        t2[p:p + 1] = [] if s1 is None else [s1]
                        self.judge(' '.join(t2), acc, case)
        elif k == 'trunc':
            toks = S[case['seed']]
            text = '\n'.join(' '.join(l) for l in [toks[:2], toks[2:]])
            for i in range(len(toks) + 1):
                self.both(toks[:i], acc, case)
            full = ' '.join(toks)
            for i in range(len(full) + 1):
                self.judge(full[:i], acc, case)
        elif k == 'bytes':
            good = ' '.join(S[0]).encode('utf-8')
            menu = {
                'latin-1 name': ' '.join(S[0]).replace('"A"', '"Zo\xeb"').encode('latin-1'),
                'utf-16 with BOM': ' '.join(S[0]).encode('utf-16'),
                'utf-16-le': ' '.join(S[0]).encode('utf-16-le'),
                'utf-8 BOM + valid': b'\xef\xbb\xbf' + good,
                'lone continuation byte': good[:7] + b'\x80' + good[7:],
                'truncated multibyte': good + b'\xe6\x9d',
                'binary junk': bytes(range(256)) * 3,
                'NUL bytes': good.replace(b' ', b'\x00'),
                'overlong encoding': good[:3] + b'\xc0\xaf' + good[3:],
                'empty file': b'',
            }
            for label, data in menu.items():
                if case.get('only') in (None, label):
                    self.judge_bytes(data, acc, case, label)
            self.judge_bytes(good, acc, case, 'valid utf-8')
            # a path that cannot be opened is a profile error too
            acc.evaluations += 1
            try:
                ElectionProfile(path='/nonexistent/dir/x.blt')
                acc.violation('C16|file-missing', 'a missing file gave a profile', case)
            except ElectionProfileError:
                pass
            except Exception as e:     # pylint: disable=broad-except
                acc.violation('C16|file-raises|%s' % type(e).__name__, 'missing file raised %r' % e, case)
        elif k == 'hostile':
            toks = S[case['seed']]
            p = case['p']
            for hs in HOSTILE:
                self.both(toks[:p] + [hs] + toks[p:], acc, case)
                if p < len(toks):
                    self.both(toks[:p] + [hs] + toks[p + 1:], acc, case)
                    self.judge(' '.join(toks[:p] + [toks[p] + hs] + toks[p + 1:]), acc, case)
                    self.judge(' '.join(toks[:p] + [hs + toks[p]] + toks[p + 1:]), acc, case)


CHECK = C16()
