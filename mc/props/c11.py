"""C11 -- neutrality: candidate numbering is irrelevant and withdrawn means absent.

(a) renumbering: for every enumerated profile and EVERY permutation of the candidate ids (names, tie-break order and ballot
    references carried along) the winners by name and the final tallies by name are those of the original numbering.
(b) withdrawal: for every enumerated profile and every withdrawn subset that leaves a valid profile, the record with those
    candidates marked withdrawn equals, action by action, the record of the profile in which they are deleted from the candidate
    list and from every ballot (remaining candidates renumbered in order, names and relative tie order kept, ballots left
    empty dropped in both): after dropping the 'Add ...' set-up log lines and keying candidates by name -- quota, ballot
    total, every tally, keep factor, quotient, status, message and round equal.
"""
import itertools
from .. import ecase, families, configs, spaces, trace, blt
from ..driver import Check, h64
from . import common


def render(n, s, ballots, names, tie, wd=()):
    return blt.render(n, s, ballots, tie=tie, withdrawn=wd, names=names, title='T')


def by_name_final(t):
    names = common.names_of(t)
    end = t.actions[-1]
    out = {}
    for cid, d in end['cstate'].items():
        out[names[cid]] = (d['state'], str(d.get('vote')), str(d.get('kf')), str(d.get('quotient')))
    return out, sorted(names[c.cid] for c in t.E.elected)


def by_name_actions(t, drop):
    names = common.names_of(t)
    out = []
    for A in t.actions:
        if A['tag'] == 'log' and A['msg'].startswith('Add '):
            continue
        row = [A['tag'], A['msg'], A['round']]
        if A['tag'] != 'log':
            row.append(str(A.get('quota')))
            row.append(tuple(sorted((names[c], d['state'], str(d.get('vote')), str(d.get('pending')), str(d.get('kf')), str(d.get('quotient')))
                                    for c, d in A['cstate'].items() if names[c] not in drop)))
            row.append(tuple(str(A.get(k)) for k in ('votes', 'nt_votes', 'residual', 'surplus')))
        out.append(tuple(row))
    return out


class C11(Check):
    pid = 'C11'
    level = 'exploration'
    rule = ('(a) quick: U(3,<=3) x seats x two tie orders x all 6 renumberings (U(3,4): a 3-cycle and a swap), 4-candidate W(4,2,3,{1,2}) x seats {2,3} x 3 renumberings, bullets+pairs BP(4,3) under scotland '
            '(multi-stage Scottish ties) x 2 renumberings; thorough: all of U(3,<=5) x all 6, W(4,2,3,{1,2}) x all 24, BP(4) x 8; 11 rules + 3 option variants. (b) U(3,<=4), W(4,2,3,{1,2}) and QW(4) x every withdrawn subset leaving a valid profile, incl. subsets of two adjacent withdrawn '
            'candidates on one ballot. evaluations = run pairs compared; distinct_nontrivial = distinct pairs whose count is not decided at begin')
    assumptions = ['bounded election sizes']
    budget = {'quick': 240, 'thorough': 3000}

    def cases(self, tier):
        q = tier == 'quick'
        P = [{'rule': 'wigm', 'arithmetic': 'fixed', 'precision': 3}, {'rule': 'meek', 'arithmetic': 'fixed', 'precision': 4},
             {'rule': 'wigm', 'defeat_batch': 'zero', 'arithmetic': 'rational'}]
        D = configs.DEFAULTS + P
        for c in families.seats_ties(3, spaces.U(3, 0, 3 if q else 4), cfgs=D):
            yield dict(c, k='renum', perms='all')
        if q:
            for c in families.seats_ties(3, spaces.U(3, 4, 4), ties='id', cfgs=configs.DEFAULTS):
                yield dict(c, k='renum', perms='given', given=[[2, 3, 1], [1, 3, 2]])
        for c in families.seats_ties(4, spaces.W(4, 2, 3, (1, 2)), seats=(2, 3) if q else (1, 2, 3), ties='id', cfgs=configs.DEFAULTS):
            yield dict(c, k='renum', perms='given', given=[[2, 1, 4, 3], [4, 1, 2, 3], [3, 4, 2, 1]]) if q else dict(c, k='renum', perms='all')
        for c in families.seats_ties(4, spaces.BP(4, 3) if q else spaces.BP(4), seats=(1,), ties='id' if q else 'idrev', cfgs=[{'rule': 'scotland'}]):
            yield dict(c, k='renum', perms='given', given=[[2, 1, 4, 3], [4, 3, 1, 2]]) if q else dict(c, k='renum', perms='some')
        for b in spaces.U(3, 0, 4):
            for s in (1, 2):
                yield dict(ecase.make(3, s, b), k='wd', cfgs=configs.DEFAULTS if q else D)
        for b in spaces.W(4, 2, 3, (1, 2)):
            for s in ((2,) if q else (1, 2)):
                yield dict(ecase.make(4, s, b), k='wd', cfgs=configs.DEFAULTS if not q else configs.DEFAULTS[::2])
        for b in (spaces.QW(4, (1,)) if q else spaces.QW(4)):
            yield dict(ecase.make(4, 1, b), k='wd', cfgs=[{'rule': 'meek'}, {'rule': 'warren'}])
        if not q:
            for c in families.seats_ties(3, spaces.U(3, 5, 5), cfgs=configs.DEFAULTS):
                yield dict(c, k='renum', perms='all')
            for b in spaces.U(3, 5, 5):
                for s in (1, 2):
                    yield dict(ecase.make(3, s, b), k='wd', cfgs=D)
            for b in spaces.W(4, 3, 3, (1, 2)):
                yield dict(ecase.make(4, 2, b), k='wd', cfgs=configs.DEFAULTS)

    def renum(self, case, acc):
        n, s = case['n'], case['s']
        ident = tuple(range(1, n + 1))
        ballots = [(m, tuple(r)) for m, r in case['b']]
        tie = tuple(case.get('tie') or ident)
        names0 = ['C%d' % i for i in ident]
        allp = list(itertools.permutations(ident))
        if case['perms'] == 'all':
            perms = allp
        elif case['perms'] == 'given':
            perms = [tuple(p) for p in case['given']]
        else:
            perms = [allp[i] for i in sorted({1, 5, 7, len(allp) // 2, len(allp) - 1, len(allp) // 3, 2 * len(allp) // 3, 13 % len(allp)})]
        text0 = render(n, s, ballots, names0, tie)
        for cfg in case['cfgs']:
            t0 = trace.run(text0, cfg, snapshots=False)
            if not t0.ok():
                acc.violation('C11|%s|%s' % (cfg['rule'], common.exc_sig(t0)), 'count failed: %r' % t0.exc, common.one_cfg(case, cfg))
                continue
            f0 = by_name_final(t0)
            nt = common.nontrivial_trace(t0)
            for pi in perms:
                if pi == ident:
                    continue
                # old id c becomes new id pi[c-1]
                m = {c: pi[c - 1] for c in ident}
                names = [None] * n
                for c in ident:
                    names[m[c] - 1] = names0[c - 1]
                b2 = [(mu, tuple(m[c] for c in r)) for mu, r in ballots]
                tie2 = tuple(m[c] for c in tie)
                t1 = trace.run(render(n, s, b2, names, tie2), cfg, snapshots=False)
                acc.evaluations += 1
                one = dict(common.one_cfg(case, cfg), perms='given', given=[list(pi)])
                if not t1.ok():
                    acc.violation('C11|%s|renumber|%s' % (cfg['rule'], common.exc_sig(t1)), 'renumbered count failed: %r' % t1.exc, one)
                    continue
                f1 = by_name_final(t1)
                if f1[1] != f0[1]:
                    acc.violation('C11|%s|renumber|winners' % cfg['rule'], 'winners %s become %s under renumbering %s: %s'
                                  % (f0[1], f1[1], list(pi), ecase.short(case, cfg)), one)
                elif f1[0] != f0[0]:
                    acc.violation('C11|%s|renumber|tallies' % cfg['rule'], 'final tallies by name change under renumbering %s: %s -> %s: %s'
                                  % (list(pi), f0[0], f1[0], ecase.short(case, cfg)), one)
                if nt:
                    acc.nontrivial.add(h64(('r', n, s, case['b'], case.get('tie'), configs.cfg_key(cfg), pi)))
        if acc.cases % 5001 == 1:
            acc.sample({'k': 'renumber', 'case': ecase.short(case), 'renumberings': len(perms)})

    def withdrawn(self, case, acc):
        n, s = case['n'], case['s']
        ident = tuple(range(1, n + 1))
        ballots = [(m, tuple(r)) for m, r in case['b']]
        names0 = ['C%d' % i for i in ident]
        subsets = [tuple(w) for w in case['given']] if case.get('given') else list(spaces.subsets(ident, 1, n - 1))
        for wd in subsets:
            if not families.valid_after_removal(n, s, ballots, wd):
                continue
            keep = [c for c in ident if c not in wd]
            m = {c: i for i, c in enumerate(keep, 1)}
            b2 = []
            for mu, r in ballots:
                r2 = []
                for x in r:
                    if isinstance(x, (tuple, list)):
                        g = tuple(m[c] for c in x if c in m)
                        if g:
                            r2.append(g if len(g) > 1 else g[0]) if False else r2.append(g)
                    elif x in m:
                        r2.append(m[x])
                if r2:
                    b2.append((mu, tuple(r2)))
            text_w = render(n, s, ballots, names0, None, wd=wd)
            text_d = render(len(keep), s, b2, [names0[c - 1] for c in keep], None)
            drop = {names0[c - 1] for c in wd}
            for cfg in case['cfgs']:
                tw = trace.run(text_w, cfg, snapshots=False)
                td = trace.run(text_d, cfg, snapshots=False)
                acc.evaluations += 1
                one = dict(common.one_cfg(case, cfg), given=[list(wd)])
                if not tw.ok() or not td.ok():
                    if tw.stage == 'parse' and td.stage == 'parse':
                        continue
                    acc.violation('C11|%s|withdrawn|outcome' % cfg['rule'], 'withdrawn: %r / deleted: %r on %s withdrawn=%s'
                                  % (tw.exc, td.exc, ecase.short(case, cfg), list(wd)), one)
                    continue
                if tw.profile.nBallots != td.profile.nBallots or str(tw.E.erecord.get('quota')) != str(td.E.erecord.get('quota')):
                    acc.violation('C11|%s|withdrawn|header' % cfg['rule'], 'ballots/quota %s/%s with %s withdrawn vs %s/%s with them deleted: %s'
                                  % (tw.profile.nBallots, tw.E.erecord.get('quota'), list(wd), td.profile.nBallots, td.E.erecord.get('quota'),
                                     ecase.short(case, cfg)), one)
                    continue
                aw, ad = by_name_actions(tw, drop), by_name_actions(td, set())
                if aw != ad:
                    i = next((i for i, (x, y) in enumerate(zip(aw, ad)) if x != y), min(len(aw), len(ad)))
                    acc.violation('C11|%s|withdrawn|record' % cfg['rule'],
                                  'records differ at action %d with %s withdrawn vs deleted: %s | %s :: %s'
                                  % (i, list(wd), aw[i][:3] if i < len(aw) else None, ad[i][:3] if i < len(ad) else None, ecase.short(case, cfg)), one)
                if common.nontrivial_trace(td):
                    acc.nontrivial.add(h64(('w', n, s, case['b'], configs.cfg_key(cfg), wd)))
        if acc.cases % 5001 == 2:
            acc.sample({'k': 'withdrawn', 'case': ecase.short(case), 'subsets': [list(w) for w in subsets][:6]})

    def check(self, case, acc):
        if case['k'] == 'renum':
            self.renum(case, acc)
        else:
            self.withdrawn(case, acc)


CHECK = C11()
