"""C19 -- an interrupted count can always be reported, as a prefix of the full count.

Fault enumeration: for each (profile, configuration) of a fixed list, EVERY k from 1 to K, where K is the number of 'line'
trace events in droop package frames during Election.count(): a fresh election is constructed, a sys.settrace tracer raises
KeyboardInterrupt at the k-th event, then report(True), dump(True), json(True) are called as Droop.main does (all six call
orders in the thorough tier).  Election.prog is NOT stubbed here (stdout is redirected): an interrupt landing inside it counts.
Oracle: count() is terminated by the injected interrupt (it must propagate); no renderer raises; the interruption marker
appears exactly once; the report contains the 'terminated prematurely' line; the JSON parses; the recorded actions minus the
marker are, action for action and field for field, a prefix of the uninterrupted record of the same election.
The command-line driver Droop.main (which catches the interrupt itself) is driven the same way for five rules, asking for report / dump / json
separately and together: every rendering it returns must be marked.
Determinism pre-check per pair: the traced and the untraced full run give identical records and K is identical on two runs
(hard error, exit 2, otherwise).
"""
import io
import itertools
import json
import sys
from .. import ecase, configs, repo
from ..repo import Election, ElectionProfile
from ..driver import Check, h64

MARK = '** count interrupted; this round is incomplete **'
REAL_PROG = None


def _real_prog():
    "the package's own Election.prog (mc.repo silences it for the other checks)"
    global REAL_PROG
    if REAL_PROG is None:
        import importlib.util
        import os
        src = open(os.path.join(repo.REPO, 'droop', 'election.py')).read()
        # re-create the original staticmethod from the class source: exec the def found in the file
        start = src.index('    def prog(msg):')
        end = src.index('\n    def ', start + 10)
        body = 'import sys\n' + '\n'.join(l[4:] for l in src[start:end].split('\n'))
        ns = {}
        exec(compile(body, os.path.join(repo.REPO, 'droop', 'election.py'), 'exec'), ns)     # pylint: disable=exec-used
        REAL_PROG = staticmethod(ns['prog'])
    return REAL_PROG


PREFIXES = None


def _in_pkg(filename):
    global PREFIXES
    if PREFIXES is None:
        PREFIXES = (repo.REPO + '/droop/', repo.REPO + '/Droop.py')
    return filename.startswith(PREFIXES)


class Injector:
    def __init__(self, k):
        self.k = k
        self.n = 0
        self.fired = False

    def glob(self, frame, event, arg):
        if _in_pkg(frame.f_code.co_filename):
            return self.local
        return None

    def local(self, frame, event, arg):
        if event == 'line':
            self.n += 1
            if self.n == self.k:
                self.fired = True
                raise KeyboardInterrupt()
        return self.local


def run(text, cfg, k):
    "count with an interrupt at the k-th line event (k = 0: no interrupt, count lines only). returns (E, injector, outcome)"
    saved_prog = Election.__dict__['prog']
    saved_out = sys.stdout
    Election.prog = _real_prog()
    E = Election(ElectionProfile(data=text), dict(cfg))
    inj = Injector(k)
    outcome = 'returned'
    sys.stdout = io.StringIO()
    try:
        sys.settrace(inj.glob)
        try:
            E.count()
        except KeyboardInterrupt:
            outcome = 'interrupted'
        except Exception as e:     # pylint: disable=broad-except
            outcome = 'raised %s: %s' % (type(e).__name__, e)
        finally:
            sys.settrace(None)
    finally:
        sys.stdout = saved_out
        Election.prog = saved_prog
    return E, inj, outcome


def actions_json(E, intr):
    return json.loads(E.json(intr))['actions']


PROFILES = [
    ('majority+transfer', ecase.make(3, 1, [(2, (1, 2)), (2, (2, 1)), (1, (3, 2))])),
    ('two seats, surplus chain, tie', ecase.make(4, 2, [(3, (1, 2, 3)), (1, (2, 3)), (1, (3,)), (1, (4, 3))])),
    ('tie by lot, batch of zeros', ecase.make(4, 2, [(2, (1,)), (2, (2,)), (1, (3, 1))], tie=(4, 3, 2, 1))),
    ('withdrawn + undeclared', ecase.make(4, 2, [(2, (1, 4)), (2, (2, 3)), (1, (3, 1)), (1, (4,))], wd=(3,), ud=(4,))),
    ('three seats of four, everybody quota', ecase.make(4, 3, [(2, (1, 2)), (2, (2, 1)), (2, (3, 4)), (1, (4,))])),
    ('equal ranks', ecase.make(3, 1, [(2, ((1, 2), 3)), (1, (3,)), (1, (2, 3))])),
]
EXTRA = [{'rule': 'wigm', 'arithmetic': 'rational'}, {'rule': 'meek', 'arithmetic': 'fixed', 'precision': 4},
         {'rule': 'wigm', 'arithmetic': 'fixed', 'precision': 3, 'defeat_batch': 'zero'}, {'rule': 'warren', 'arithmetic': 'rational', 'omega': 3}]


class C19(Check):
    pid = 'C19'
    level = 'fault_enumeration'
    rule = ('fixed list of profiles (quick: 2, thorough: 6; chosen so that each rule takes its elect / transfer / tie / batch / defeat branches) x 11 rules + 4 option variants; '
            'for each pair every line event k = 1..K of droop package code during count() is an interruption point; evaluations = interruption points executed; '
            'distinct_nontrivial = interruption points that land after the record header is filled and before the end action (the record is a proper, non-empty prefix), '
            'distinct by construction')
    assumptions = ['interruption granularity = one executed source line of package code (sys.settrace line events); an interrupt arriving inside a C-level builtin call is delivered at the next line',
                   'the uninterrupted run is deterministic (pre-checked per pair)']
    budget = {'quick': 240, 'thorough': 3000}
    CHUNK = 150

    def pairs(self, tier):
        profs = PROFILES[1:3] if tier == 'quick' else PROFILES
        for pi, (label, case) in enumerate(profs):
            for cfg in configs.DEFAULTS + EXTRA:
                if label == 'equal ranks' and cfg['rule'] not in ('meek', 'warren'):
                    continue
                yield label, case, cfg

    def cases(self, tier):
        for label, case, cfg in self.pairs(tier):
            text = ecase.text(case)
            E0, inj0, _ = run(text, cfg, 0)
            K = inj0.n
            E1, inj1, _ = run(text, cfg, 0)
            if inj1.n != K:
                raise RuntimeError('non-deterministic line count for %s %s: %d vs %d' % (label, cfg, K, inj1.n))
            plain = Election(ElectionProfile(data=text), dict(cfg))
            plain.count()
            if json.loads(plain.json()) != json.loads(E0.json()):
                raise RuntimeError('traced and untraced full runs differ for %s %s' % (label, cfg))
            orders = [('report', 'dump', 'json')] if tier == 'quick' else list(itertools.permutations(('report', 'dump', 'json')))
            for lo in range(1, K + 1, self.CHUNK):
                yield {'label': label, 'case': case, 'cfg': cfg, 'lo': lo, 'hi': min(K, lo + self.CHUNK - 1), 'K': K, 'orders': orders}
            if cfg in ({'rule': 'wigm'}, {'rule': 'meek'}, {'rule': 'scotland'}, {'rule': 'mpls'}, {'rule': 'qpq'}):
                # the command-line driver on the same pairs, every 7th interruption point (thorough: every 2nd)
                step = 7 if tier == 'quick' else 2
                for lo in range(1, K + 1, self.CHUNK * 2):
                    yield {'k': 'cli', 'label': label, 'case': case, 'cfg': cfg, 'lo': lo, 'hi': min(K, lo + self.CHUNK * 2 - 1), 'K': K, 'step': step}

    def cli(self, c, acc):
        "Droop.main catches the interrupt itself; whatever renderings it was asked for must be marked"
        import importlib
        import os
        import tempfile
        if repo.REPO not in sys.path:
            sys.path.insert(0, repo.REPO)
        Droop = importlib.import_module('Droop')
        text = ecase.text(c['case'])
        fd, path = tempfile.mkstemp(suffix='.blt')
        saved_prog = Election.__dict__['prog']
        saved_out = sys.stdout
        saved_cwd = os.getcwd()
        scratch = tempfile.mkdtemp(prefix='c19-')
        os.chdir(scratch)
        try:
            with os.fdopen(fd, 'w') as f:
                f.write(text)
            for k in range(c['lo'], c['hi'] + 1, c['step']):
                for want in (('report',), ('dump',), ('json',), ('dump', 'json'), ('report', 'profile')):
                    acc.evaluations += 1
                    opts = dict(c['cfg'], path=path, report='report' in want, dump='dump' in want, json='json' in want)
                    if 'profile' in want:
                        if k % 5:
                            continue
                        opts['profile'] = 1      # the driver's cProfile path (writes profile.out into the current directory)
                        want = ('report',)
                    inj = Injector(k)
                    Election.prog = _real_prog()
                    sys.stdout = io.StringIO()
                    out = None
                    err = None
                    try:
                        # count line events only inside Election.count(): start the tracer when count() is entered
                        orig_count = Election.count

                        def traced_count(self, _orig=orig_count, _inj=inj):
                            sys.settrace(_inj.glob)
                            try:
                                return _orig(self)
                            finally:
                                sys.settrace(None)
                        Election.count = traced_count
                        try:
                            out = Droop.main(opts)
                        except BaseException as e:     # pylint: disable=broad-except
                            err = e
                        finally:
                            Election.count = orig_count
                            sys.settrace(None)
                    finally:
                        sys.stdout = saved_out
                        Election.prog = saved_prog
                    where = 'Droop.main(%s) interrupted at line event %d (%s, %s)' % ('+'.join(want), k, c['label'], configs.cfg_str(c['cfg']))
                    one = dict(c, lo=k, hi=k)
                    if err is not None:
                        acc.violation('C19|cli|%s-raises-%s' % ('+'.join(want), type(err).__name__), '%s raised %r' % (where, err), one)
                        continue
                    if not inj.fired:
                        continue
                    if 'report' in want and 'terminated prematurely' not in out:
                        acc.violation('C19|cli|report-unmarked', 'report lacks the "terminated prematurely" line: %s' % where, one)
                    if ('dump' in want or 'json' in want) and out.count(MARK) != len([w for w in want if w != 'report']) + (1 if 'report' in want else 0):
                        acc.violation('C19|cli|%s-unmarked' % '+'.join(want), 'output carries the interruption marker %d times: %s' % (out.count(MARK), where), one)
                    acc.nontrivial_count += 1
        finally:
            os.chdir(saved_cwd)
            os.unlink(path)
            import shutil
            shutil.rmtree(scratch, ignore_errors=True)

    def check(self, c, acc):
        if c.get('k') == 'cli':
            return self.cli(c, acc)
        text = ecase.text(c['case'])
        cfg = c['cfg']
        rule = cfg['rule']
        full = Election(ElectionProfile(data=text), dict(cfg))
        full.count()
        full_actions = actions_json(full, False)
        for k in range(c['lo'], c['hi'] + 1):
            order = c['orders'][k % len(c['orders'])]
            acc.evaluations += 1
            one = dict(c, lo=k, hi=k, orders=[list(order)])
            where = 'interrupt at line event %d of %d (%s, %s)' % (k, c['K'], c['label'], configs.cfg_str(cfg))
            E, inj, outcome = run(text, cfg, k)
            if not inj.fired:
                acc.violation('C19|%s|point-not-reached' % rule, 'the count has fewer line events than when it was measured: %s' % where, one)
                continue
            if outcome.startswith('raised'):
                acc.violation('C19|%s|count-%s' % (rule, outcome.split(':')[0].replace(' ', '-')), 'the interrupted count ended with another exception (%s): %s' % (outcome, where), one)
                continue
            if outcome != 'interrupted':
                acc.violation('C19|%s|interrupt-swallowed' % rule, 'KeyboardInterrupt did not terminate count(): %s' % where, one)
                continue
            out = {}
            failed = False
            for name in order:
                try:
                    out[name] = getattr(E, name)(True)
                except Exception as e:     # pylint: disable=broad-except
                    failed = True
                    acc.violation('C19|%s|%s-raises-%s' % (rule, name, type(e).__name__),
                                  '%s(True) raised %r after %s' % (name, e, where), one)
            if failed:
                continue
            try:
                acts = json.loads(out['json'])['actions']
            except Exception as e:     # pylint: disable=broad-except
                acc.violation('C19|%s|json-invalid' % rule, 'json(True) is not valid JSON (%r) after %s' % (e, where), one)
                continue
            marks = [i for i, A in enumerate(acts) if A['tag'] == 'log' and A['msg'] == MARK]
            if len(marks) != 1 or marks[0] != len(acts) - 1:
                acc.violation('C19|%s|marker' % rule, 'interruption marker appears %d times (positions %s of %d actions) after %s'
                              % (len(marks), marks, len(acts), where), one)
                continue
            if 'terminated prematurely' not in out['report']:
                acc.violation('C19|%s|report-unmarked' % rule, 'report lacks the "terminated prematurely" line after %s' % where, one)
            if MARK not in out['dump']:
                acc.violation('C19|%s|dump-unmarked' % rule, 'dump lacks the interruption marker after %s' % where, one)
            pre = acts[:-1]
            if pre != full_actions[:len(pre)]:
                i = next((i for i, (a, b) in enumerate(zip(pre, full_actions)) if a != b), min(len(pre), len(full_actions)))
                acc.violation('C19|%s|not-a-prefix' % rule, 'action %d of the interrupted record differs from the uninterrupted count (%s vs %s) after %s'
                              % (i, json.dumps(pre[i])[:160] if i < len(pre) else None,
                                 json.dumps(full_actions[i])[:160] if i < len(full_actions) else None, where), one)
                continue
            if any(A['tag'] in ('begin', 'count') for A in pre) and not any(A['tag'] == 'end' for A in pre):
                acc.nontrivial_count += 1
        if c['lo'] == 1:
            acc.sample({'profile': c['label'], 'blt': text, 'cfg': cfg, 'interruption_points_K': c['K']})


CHECK = C19()
