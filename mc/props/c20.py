"""C20 -- a count is independent of whatever was counted before it in the process.

Explicit-state search over the process-global state of the droop package, driving the real code:
  state      every plain-data attribute of every droop module and of every class defined in them (found by a generic scan:
             the class-level configuration of Fixed / Guarded / Rational incl. name-mangled scale factors, epsilon, maxDiff /
             minDiff, and anything a change might add), plus the parsed ElectionProfile objects, which are shared by all
             elections of the same ballot file ("counting the same profile again in a fresh election object"), plus the caller's own
             option dicts (one object per distinct configuration, handed to every election run with that configuration)
  letters    (profile, rule, options): construct an Election on the shared profile object, count, report + dump + json
  search     BFS from the freshly imported package; a state is snapshotted / restored by setattr + deepcopy, so every
             (state, letter) pair is executed exactly once; new states are appended until CLOSURE, so the verdict holds for
             histories of any length over the alphabet, not up to a depth
  oracle     for every (state, letter): report + dump + json byte-equal to the same letter run from the initial state
             (self-loops give "counting again in a fresh object")
  binding    the letter history of discovered states is replayed in a fresh subprocess (import droop, run the letters, hash
             outputs and final state) and must reproduce what the in-process search recorded
"""
import copy
import hashlib
import json
import multiprocessing as mp
import os
import subprocess
import sys
import time
from fractions import Fraction

from .. import repo, ecase, driver, blt
from ..repo import Election, ElectionProfile

PID = 'C20'
VALUE_TYPES = (repo.Fixed, repo.Guarded)

PROFILES = {
    'P1': blt.render(4, 2, [(3, (1, 2, 3)), (2, (2, 1)), (1, (3, 4)), (1, (4, 3)), (1, (2, 4))]),
    'P2': blt.render(3, 1, [(2, (1, 2)), (2, (2, 1)), (1, (3, 1))], tie=(3, 2, 1)),
    # under-supported second seat, near-equal comparisons (leaves a non-zero Guarded.maxDiff behind), one ranking on two separate lines
    'P4': blt.render(3, 2, [(2, (1,)), (1, (1, 2)), (1, (1,)), (1, (1, 3))]),
    # options embedded in the ballot file (the profile object carries them; integer arithmetic requested by the file)
    'P5': blt.render(3, 1, [(2, (1, 2)), (2, (2, 3)), (1, (3, 1)), (1, (2, 1))], droop_opts=['arithmetic=fixed', 'precision=3']),
    'P6': blt.render(3, 1, [(2, (1, 2)), (2, (2, 3)), (1, (3, 1))], droop_opts=['integer']),
    'P3': blt.render(4, 2, [(2, ((1, 2), 3)), (2, (3, (1, 4))), (1, (4,)), (2, (2, 1)), (1, ((3, 4), 2))]),   # equal ranks (meek/warren read them)
}


def letters(tier):
    out = []
    rules = ['cfer', 'cfer-batch', 'meek', 'meek-prf', 'mpls', 'qpq', 'scotland', 'warren', 'wigm', 'wigm-prf', 'wigm-prf-batch']
    variants = [{'arithmetic': 'fixed', 'precision': 2}, {'arithmetic': 'fixed', 'precision': 6, 'display': 3},
                {'arithmetic': 'guarded', 'precision': 4, 'guard': 0}, {'arithmetic': 'guarded', 'precision': 3, 'guard': 2, 'display': 5},
                {'arithmetic': 'guarded', 'precision': 5, 'guard': 3, 'display': 2}, {'arithmetic': 'rational', 'display': 5, 'omega': 3},
                {'arithmetic': 'guarded', 'precision': 2, 'guard': 3, 'display': 5}]      # same total digits and display as 3+2, other split
    if tier == 'quick':
        variants = [v for v in variants if not (v.get('precision') in (6, 5))]      # two of the splits only in the thorough tier
    if tier == 'thorough':
        variants += [{'arithmetic': 'fixed', 'precision': 9, 'display': 0}, {'arithmetic': 'guarded', 'precision': 9, 'guard': 9, 'display': 12},
                     {'arithmetic': 'rational', 'display': 0, 'omega': 2}, {'arithmetic': 'guarded', 'precision': 2, 'guard': 0, 'display': 1}]
    profs = ['P1', 'P2', 'P4', 'P3'] if tier == 'thorough' else ['P1', 'P4', 'P3']
    for p in profs:
        for r in rules:
            if p == 'P3' and r not in ('meek', 'warren', 'meek-prf', 'wigm'):
                continue
            out.append((p, {'rule': r}))
        for r in ('wigm', 'meek', 'warren'):
            for v in variants:
                if p == 'P3' and r == 'wigm' and v['arithmetic'] != 'guarded':
                    continue
                out.append((p, dict(v, rule=r)))
        out.append((p, {'rule': 'wigm', 'arithmetic': 'integer'}))
        if p != 'P3':
            out.append((p, {'rule': 'wigm', 'arithmetic': 'rational'}))
    for p in ('P5', 'P6'):
        for r in ('wigm', 'meek', 'scotland', 'qpq'):
            if p == 'P6' and r == 'meek':
                continue        # meek does not accept integer arithmetic
            out.append((p, {'rule': r}))
    return out


# ---------------------------------------------------------------------- state
def plain(v, depth=0):
    if v is None or isinstance(v, (bool, int, float, str, bytes, Fraction)):
        return True
    if isinstance(v, VALUE_TYPES):
        return True
    if depth > 4:
        return False
    if isinstance(v, (tuple, list, set, frozenset)):
        return all(plain(x, depth + 1) for x in v)
    if isinstance(v, dict):
        return all(plain(k, depth + 1) and plain(x, depth + 1) for k, x in v.items())
    return False


def canon(v):
    if isinstance(v, VALUE_TYPES):
        return ('V', type(v).__name__, v._value)
    if isinstance(v, Fraction) and not isinstance(v, bool):
        return ('F', v.numerator, v.denominator)
    if isinstance(v, (tuple, list)):
        return (type(v).__name__,) + tuple(canon(x) for x in v)
    if isinstance(v, (set, frozenset)):
        return ('set',) + tuple(sorted(repr(canon(x)) for x in v))
    if isinstance(v, dict):
        return ('dict',) + tuple(sorted((repr(canon(k)), canon(x)) for k, x in v.items()))
    return v


def locations():
    "yield (key, holder, attr, value) for every plain-data attribute of droop modules and of classes defined in them"
    for mname in sorted(m for m in sys.modules if m == 'droop' or m.startswith('droop.')):
        mod = sys.modules[mname]
        if mod is None:
            continue
        for a, v in list(vars(mod).items()):
            if a.startswith('__') and a.endswith('__'):
                continue
            if isinstance(v, type):
                if getattr(v, '__module__', None) == mname:
                    for ca, cv in list(vars(v).items()):
                        if ca.startswith('__') and ca.endswith('__'):
                            continue
                        if plain(cv) and not callable(cv):
                            yield (mname, v.__name__, ca), v, ca, cv
            elif plain(v) and not callable(v):
                yield (mname, None, a), mod, a, v


def profile_sig(p):
    return (p.title, p.nSeats, p.nCand, p.nBallots, sorted(p.eligible), sorted(p.withdrawn), sorted(p.undeclared), sorted(p.tieOrder.items()),
            sorted(p.nickName.items()), list(p.options), [(b.multiplier, list(b.ranking)) for b in p.ballotLines],
            [(b.multiplier, [list(x) for x in b.ranking]) for b in p.ballotLinesEqual])


class World:
    "the package state + the shared profile objects"

    def __init__(self):
        self.profiles = {k: ElectionProfile(data=t) for k, t in PROFILES.items()}
        self.dicts = {}      # the caller's own option dicts, one object per distinct configuration, reused across elections

    def snapshot(self):
        g = {key: copy.deepcopy(v) for key, _, _, v in locations()}
        return {'g': g, 'p': copy.deepcopy(self.profiles), 'd': copy.deepcopy(self.dicts)}

    def restore(self, snap):
        want = snap['g']
        for key, holder, attr, _ in list(locations()):
            if key not in want:
                delattr(holder, attr)
        holders = {}
        for mname in sys.modules:
            if mname == 'droop' or mname.startswith('droop.'):
                holders[mname] = sys.modules[mname]
        for (mname, cname, attr), v in want.items():
            holder = holders[mname] if cname is None else getattr(holders[mname], cname)
            setattr(holder, attr, copy.deepcopy(v))
        self.profiles = copy.deepcopy(snap['p'])
        self.dicts = copy.deepcopy(snap.get('d', {}))

    @staticmethod
    def key(snap):
        c = (tuple(sorted((repr(k), repr(canon(v))) for k, v in snap['g'].items())),
             tuple(sorted((k, repr(profile_sig(p))) for k, p in snap['p'].items())),
             tuple(sorted((k, repr(sorted(d.items(), key=repr))) for k, d in snap.get('d', {}).items())))
        return hashlib.blake2b(repr(c).encode(), digest_size=12).hexdigest()

    def run(self, letter):
        pname, cfg = letter
        key = repr(sorted(cfg.items()))
        if key not in self.dicts:
            self.dicts[key] = dict(cfg)
        E = Election(self.profiles[pname], self.dicts[key])      # the caller hands over its own dict, as a driver looping over files does
        E.count()
        return E.json() + '\x00' + E.report() + '\x00' + E.dump()


def ohash(s):
    return hashlib.blake2b(s.encode(), digest_size=12).hexdigest()


_W = None
_L = None


def _init(tier):
    global _W, _L
    _W = World()
    _L = letters(tier)
    for _, cfg in _L:       # all caller dicts exist from the start (a lazily growing set would multiply the states by its subsets)
        _W.dicts.setdefault(repr(sorted(cfg.items())), dict(cfg))


def _task(args):
    snap, li = args
    _W.restore(snap)
    try:
        out = _W.run(_L[li])
    except Exception as e:     # pylint: disable=broad-except
        out = 'EXCEPTION %s: %s' % (type(e).__name__, e)
    new = _W.snapshot()
    return li, ohash(out), out, new, World.key(new)


def replay_history(tier, hist):
    "fresh process: run the letters, return ([output hashes], final state key)"
    _init(tier)
    outs = []
    for li in hist:
        try:
            out = _W.run(_L[li])
        except Exception as e:     # pylint: disable=broad-except
            out = 'EXCEPTION %s: %s' % (type(e).__name__, e)
        outs.append(ohash(out))
    return outs, World.key(_W.snapshot())


class C20:
    pid = PID
    level = 'model_checking'

    def path(self, states, key):
        hist = []
        outs = []
        while states[key]['parent'] is not None:
            hist.append(states[key]['letter'])
            outs.append(states[key]['oh'])
            key = states[key]['parent']
        return hist[::-1], outs[::-1]

    def sub(self, tier, hist):
        r = subprocess.run([sys.executable, '-m', 'mc.props.c20', tier, json.dumps(hist)], cwd=driver.VERIF, capture_output=True, text=True,
                           env=dict(os.environ, PYTHONHASHSEED='0'))
        if r.returncode != 0:
            raise RuntimeError('replay subprocess failed: %s' % r.stderr[-800:])
        return json.loads(r.stdout.strip().split('\n')[-1])

    def run_custom(self, tier, seed):
        t0 = time.time()
        budget = float(os.environ.get('VERIF_BUDGET', 240 if tier == 'quick' else 3000))
        _init(tier)
        L = _L
        init = _W.snapshot()
        ikey = World.key(init)
        ctx = mp.get_context('fork')
        pool = ctx.Pool(driver.NWORKERS, initializer=_init, initargs=(tier,))
        states = {ikey: {'snap': init, 'parent': None, 'letter': None, 'depth': 0, 'oh': None}}
        frontier = [ikey]
        ntrans = 0
        distinct = set()
        ref = {}
        refout = {}
        viol = {}          # signature -> (message, history, letter)
        exhaustive = True
        depth = 0
        self_loops = 0
        try:
            while frontier:
                depth += 1
                tasks = [(states[k]['snap'], li) for k in frontier for li in range(len(L))]
                owners = [k for k in frontier for _ in range(len(L))]
                nxt = []
                for owner, (li, oh, out, new, nkey) in zip(owners, pool.imap(_task, tasks, chunksize=2)):
                    ntrans += 1
                    distinct.add((owner, li, nkey))
                    if owner == nkey:
                        self_loops += 1
                    if owner == ikey:
                        ref[li] = oh
                        refout[li] = out
                        if out.startswith('EXCEPTION'):
                            viol.setdefault('C20|%s|letter-fails' % L[li][1]['rule'], ('letter %s fails from the fresh state: %s' % (L[li], out[:200]), [], li))
                    elif oh != ref[li]:
                        hist, _ = self.path(states, owner)
                        parts = ('json', 'report', 'dump')
                        a, b = out.split('\x00'), refout[li].split('\x00')
                        which = [parts[i] for i in range(min(len(a), len(b), 3)) if a[i] != b[i]] if len(a) == len(b) == 3 else ['outcome']
                        sig = 'C20|%s|%s|history-dependence|%s' % (L[li][1]['rule'], L[li][1].get('arithmetic', 'default'), '+'.join(which))
                        old = viol.get(sig)
                        if old is None or len(hist) < len(old[1]):
                            viol[sig] = ('%s of %s differs after the history %s (%s)' % ('/'.join(which), L[li], [L[h] for h in hist], out[:120] if out.startswith('EXC') else ''),
                                         hist, li)
                    if nkey not in states:
                        states[nkey] = {'snap': new, 'parent': owner, 'letter': li, 'depth': depth, 'oh': oh}
                        nxt.append(nkey)
                frontier = nxt
                if frontier and time.time() - t0 > budget:
                    exhaustive = False
                    break
        finally:
            pool.close()
            pool.join()
        # ---- a history of *files*: another ballot file read earlier under the same path must not matter
        import tempfile
        fd, fpath = tempfile.mkstemp(suffix='.blt')
        os.close(fd)
        try:
            names = sorted(PROFILES)
            for a in names:
                for b in names:
                    if a == b:
                        continue
                    ntrans += 1
                    with open(fpath, 'w') as f:
                        f.write(PROFILES[a])
                    ElectionProfile(path=fpath)
                    with open(fpath, 'w') as f:
                        f.write(PROFILES[b])
                    got = profile_sig(ElectionProfile(path=fpath))
                    if got != profile_sig(ElectionProfile(data=PROFILES[b])):
                        viol.setdefault('C20|profile|file-history-dependence',
                                        ('reading %s from a path from which %s was read before gives a different profile' % (b, a), [], None))
        finally:
            os.unlink(fpath)
        # ---- binding: replay histories in fresh subprocesses
        keys = [k for k in states if k != ikey]
        keys.sort(key=lambda k: (-states[k]['depth'], k))
        nrep = len(keys) if tier == 'thorough' else min(len(keys), 48)
        chosen = keys[:nrep // 2] + keys[len(keys) - (nrep - nrep // 2):] if nrep < len(keys) else keys
        validated = 0
        hidden = []
        jobs = []
        for k in chosen:
            hist, outs = self.path(states, k)
            jobs.append((k, hist, outs))
        with ctx.Pool(driver.NWORKERS) as pool2:
            res = pool2.starmap(_subcall, [(tier, h) for _, h, _ in jobs])
        for (k, hist, outs), r in zip(jobs, res):
            if r.get('error'):
                print('HARNESS ERROR: subprocess replay failed: %s' % r['error'])
                return 2
            if r['outs'] != outs:
                # In a fresh process the same history produces another output than the (state-restoring) search recorded: the output
                # depends on something outside the scanned state (a cache in a closure, a C-level object).  The saturation history
                # below turns this into a violation that reproduces in fresh processes; unexplained mismatches are a harness error.
                hidden.append(hist)
                continue
            if r['state'] != k:
                print('HARNESS ERROR: the in-process search and a fresh process disagree on the state reached by history %s (%s vs %s)' % (hist, r['state'], k))
                return 2
            validated += 1
        # ---- fresh references and the saturation history (every letter once, then every letter again) in fresh processes
        n = len(L)
        with ctx.Pool(driver.NWORKERS) as pool3:
            fresh = pool3.starmap(_subcall, [(tier, [i]) for i in range(n)] + [(tier, list(range(n)) + list(range(n)))])
        if any(f.get('error') for f in fresh):
            print('HARNESS ERROR: subprocess failed: %s' % [f.get('error') for f in fresh if f.get('error')][:1])
            return 2
        ref_fresh = [f['outs'][0] for f in fresh[:n]]
        sat = fresh[n]['outs']
        order2 = list(range(n)) + list(range(n))
        for pos, li in enumerate(order2):
            ntrans += 1
            if sat[pos] != ref_fresh[li]:
                sig = 'C20|%s|%s|history-dependence|saturation' % (L[li][1]['rule'], L[li][1].get('arithmetic', 'default'))
                if sig not in viol:
                    viol[sig] = ('%s gives another record after the %d elections of the alphabet run before it in one process than in a fresh process'
                                 % (L[li], pos), order2[:pos], li)
        if hidden and not any(s_.endswith('saturation') for s_ in viol):
            print('HARNESS ERROR: the in-process search and fresh processes disagree on histories %s and the saturation history does not explain it' % hidden[:2])
            return 2
        # ---- confirm + report violations
        kf = driver.known_findings()
        known = {f['signature']: f for f in kf.get('findings', []) if f.get('property') == PID}
        code = 0
        lines = []
        nviol = 0
        unconfirmed = []
        for sig in sorted(viol):
            msg, hist, li = viol[sig]
            if li is None:      # file-history check: confirmed inline, no letter history
                case = {'tier': tier, 'file_history': True}
                if sig not in known:
                    nviol += 1
                    print('violation: %s :: %s' % (sig, msg))
                    lines.append('VIOLATION property=%s replay=%s' % (PID, driver.write_replay(PID, sig, msg, case)))
                    code = 1
                continue
            case = {'tier': tier, 'history': [list(L[h]) for h in hist], 'letter': list(L[li])}
            if not self.confirm(case):
                # the state-restoring search saw it, a fresh process with the same letter history does not: the difference came from state
                # outside the scanned data left behind by other elections in the worker; only violations that reproduce are reported
                unconfirmed.append(sig)
                continue
            if sig in known:
                lines.append('KNOWN-FINDING: property=%s %s' % (PID, known[sig].get('what', sig)))
                continue
            nviol += 1
            print('violation: %s :: %s' % (sig, msg))
            lines.append('VIOLATION property=%s replay=%s' % (PID, driver.write_replay(PID, sig, msg, case)))
            code = 1
        if unconfirmed and code == 0:
            print('HARNESS ERROR: %d difference(s) seen by the state-restoring search did not reproduce in fresh processes and no reproducible '
                  'violation explains them: %s' % (len(unconfirmed), unconfirmed[:3]))
            return 2
        for u in unconfirmed:
            print('note: %s seen in-process only (hidden state); see the reproducible violation(s) above' % u)
        wall = time.time() - t0
        samples = []
        for k in keys[:2] + keys[-2:]:
            hist, _ = self.path(states, k)
            samples.append({'state': k, 'depth': states[k]['depth'], 'history': [[L[h][0], L[h][1]] for h in hist]})
        cov = {
            'states': len(states), 'transitions': len(distinct), 'traces_validated_against_impl': validated, 'samples': samples,
            'evaluations': ntrans, 'distinct_nontrivial': len([1 for (a, l, b) in distinct if a != ikey]),
            'rule': 'explicit-state BFS to closure over the package-global state (generic scan of droop modules/classes + shared profile objects); alphabet of %d letters '
                    '(profile, rule, options); every (state, letter) executed once and compared with the letter run from the fresh state; '
                    'non-trivial = transitions taken from a non-initial state' % len(L),
            'exhaustive': exhaustive, 'closed': exhaustive, 'max_depth': max(v['depth'] for v in states.values()), 'letters': len(L), 'self_loops': self_loops,
            'state_locations': len(init['g']), 'replayed_in_fresh_subprocess': validated,
            'alphabet': [[p, c] for p, c in L][:80], 'repo': repo.REPO, 'repo_head': driver.git_head(repo.REPO), 'signatures_seen': sorted(viol),
        }
        ev = {'property_id': PID, 'tier': tier, 'seed': seed, 'level': 'model_checking', 'coverage': cov,
              'assumptions': ['state is owned by a generic scan of all plain-data attributes of droop modules and their classes; state hidden in closures or C objects would escape it',
                              'each election is constructed, counted and reported before the next is constructed (as the property states)',
                              'alphabet of (profile, rule, options) letters is finite and listed in the evidence'],
              'wall_s': round(wall, 2), 'violations': nviol}
        evdir = os.environ.get('VERIF_EVIDENCE_DIR') or os.path.join(driver.VERIF, 'evidence')
        os.makedirs(evdir, exist_ok=True)
        with open(os.path.join(evdir, '%s.json' % PID), 'w') as f:
            json.dump(ev, f, indent=1, sort_keys=True, default=str)
            f.write('\n')
        print('%s %s: states=%d transitions=%d executed=%d closed=%s max_depth=%d replayed=%d letters=%d wall=%.1fs'
              % (PID, tier, len(states), len(distinct), ntrans, exhaustive, cov['max_depth'], validated, len(L), wall))
        for ln in lines:
            print(ln)
        return code

    def confirm(self, case):
        "history then letter in one fresh process versus the letter alone in another"
        tier = case['tier']
        Ls = [list(x) for x in letters(tier)]
        try:
            hist = [Ls.index(list(h)) for h in case['history']]
            li = Ls.index(list(case['letter']))
        except ValueError:
            return False
        a = self.sub(tier, hist + [li])
        b = self.sub(tier, [li])
        return a['outs'][-1] != b['outs'][-1]

    def replay(self, path):
        data = json.load(open(path))
        bad = self.confirm(data['case'])
        if bad:
            print('violation: %s :: %s' % (data.get('signature'), data.get('message')))
            print('VIOLATION property=%s replay=%s' % (PID, path))
            return 1
        print('replay of %s: property holds on this history' % path)
        return 0


def _subcall(tier, hist):
    try:
        return CHECK.sub(tier, hist)
    except Exception as e:     # pylint: disable=broad-except
        return {'error': str(e)}


CHECK = C20()

if __name__ == '__main__':
    outs, st = replay_history(sys.argv[1], json.loads(sys.argv[2]))
    print(json.dumps({'outs': outs, 'state': st}))
