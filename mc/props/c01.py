"""C01 -- every count terminates with the seats filled and every candidate decided."""
from .. import ecase, families, configs, spaces
from ..driver import Check, h64
from . import common


class C01(Check):
    pid = 'C01'
    level = 'exploration'
    rule = ('every profile of the stated spaces (U = all multisets of unit ballots, W = weighted ballot types; '
            'x seats x tie orders x withdrawn/undeclared subsets) x every rule / option menu entry is counted by '
            'the real code; oracle: count() returns, winners == min(seats, electable), every non-withdrawn '
            'candidate is exactly one of elected/defeated at the end, withdrawn never elected nor credited. '
            'distinct_nontrivial = distinct (profile, config) whose count has a transfer, a non-epilogue exclusion '
            'or more than one round')
    assumptions = ['elections no larger than the enumerated bounds (<=5 candidates, <=8 ballots or <=4 weighted types)',
                   'meek/warren with rational arithmetic only under a CPU budget (overrun = not explored)']
    budget = {'quick': 240, 'thorough': 3000}

    def cases(self, tier):
        yield from families.standard(tier)
        # quasi-exact arithmetic far too coarse for the election (elected candidates drop below the quota, several hopefuls exceed it at once):
        # the count must still terminate with the seats filled.  (The per-step monitors do not run these configurations: with more quota
        # holders than seats the election clauses of C04 cannot all hold -- a scope limit, see DESIGN.md.)
        coarse = [{'rule': 'meek', 'arithmetic': 'guarded', 'precision': 2}, {'rule': 'warren', 'arithmetic': 'guarded', 'precision': 3},
                  {'rule': 'wigm', 'arithmetic': 'guarded', 'precision': 2}, {'rule': 'meek', 'arithmetic': 'guarded', 'precision': 1}]
        yield from families.repo_files(coarse, max_bytes=4000 if tier == 'quick' else 10 ** 7)
        if tier == 'thorough':
            rat = [{'rule': 'meek', 'arithmetic': 'rational'}, {'rule': 'warren', 'arithmetic': 'rational'},
                   {'rule': 'meek', 'arithmetic': 'rational', 'omega': 3}]
            for c in families.seats_ties(3, spaces.U(3, 0, 4), ties='id', cfgs=rat):
                c['alarm'] = 2
                yield c

    def check(self, case, acc):
        n, s = case['n'], case['s']
        wd = set(case.get('wd') or ())
        ud = set(case.get('ud') or ())
        alarm = case.get('alarm', 20)
        for cfg, t, one in common.runs(case, snapshots=True, alarm=alarm):
            acc.evaluations += 1
            rule = cfg['rule']
            if not t.ok():
                if case.get('alarm') and t.stage == 'count' and common.exc_sig(t).startswith('timeout'):
                    acc.stats['rational_budget_overrun_not_explored'] += 1
                    continue
                acc.violation('C01|%s|%s' % (rule, common.exc_sig(t)),
                              '%s: %r on %s' % (common.exc_sig(t), t.exc, ecase.short(case, cfg)), one)
                continue
            E = t.E
            electable = n - len(wd | ud) if rule == 'mpls' else n - len(wd)
            want = min(s, electable)
            el = {c.cid for c in E.elected}
            de = {c.cid for c in E.defeated}
            wi = {c.cid for c in E.withdrawn}
            if len(el) != want:
                acc.violation('C01|%s|winners' % rule, '%d winners, expected %d: %s'
                              % (len(el), want, ecase.short(case, cfg)), one)
            if el & de or (el | de) != set(range(1, n + 1)) - wd or wi != wd:
                acc.violation('C01|%s|undecided' % rule, 'elected=%s defeated=%s withdrawn=%s: %s'
                              % (sorted(el), sorted(de), sorted(wi), ecase.short(case, cfg)), one)
            end = t.actions[-1]
            if end['tag'] != 'end':
                acc.violation('C01|%s|no-end' % rule, 'last action is %s' % end['tag'], one)
            else:
                cs = end['cstate']
                fin_el = {c for c in cs if cs[c]['state'] == 'elected'}
                fin_de = {c for c in cs if cs[c]['state'] == 'defeated'}
                if fin_el != el or fin_de != de:
                    acc.violation('C01|%s|end-snapshot' % rule, 'end snapshot %s/%s vs %s/%s'
                                  % (sorted(fin_el), sorted(fin_de), sorted(el), sorted(de)), one)
            if wd:
                for A, sd in zip(t.actions, t.side):
                    if sd is None:
                        continue
                    if any(A['cstate'][c]['state'] != 'withdrawn' for c in wd) or any(v != 0 for v in sd[1]):
                        acc.violation('C01|%s|withdrawn-touched' % rule,
                                      'withdrawn candidate changed state or was credited: %s' % ecase.short(case, cfg), one)
                        break
                if any(c.vote != E.V0 for c in E.withdrawn):
                    acc.violation('C01|%s|withdrawn-touched' % rule, 'withdrawn credited at end', one)
            if common.nontrivial_trace(t):
                acc.nontrivial.add(h64((case['n'], case['s'], case['b'], case.get('tie'), case.get('wd'),
                                        case.get('ud'), configs.cfg_key(cfg))))
                acc.stats['nontrivial_counts'] += 1
                if acc.stats['nontrivial_counts'] % 50000 == 1:
                    acc.sample({'case': ecase.short(case, cfg), 'elected': sorted(el), 'actions': len(t.actions)})
            if wd:
                acc.stats['with_withdrawn'] += 1
            if ud:
                acc.stats['with_undeclared'] += 1


CHECK = C01()
