"""C10 -- the record depends on the ballots cast, not on how the file presents them.

For every enumerated profile (canonical file: identical ballots merged, one line per ballot type, numbers for candidates) the
real code is run on the canonical file and on ALL of:
  perm    every permutation of its ballot lines (files of four or more lines in the quick tier: reversal, rotation and every adjacent swap)
  split   every line replaced by every ordered split of its multiplier (all compositions, one line at a time), and the fully
          split unit-ballot file, and the unit file reversed
  layout  one token per line / everything on one line / CRLF line ends / tabs / blank lines between all lines
  comment '# ...' at line ends, '/* ... */' between tokens, nested /* /* */ */, a '#'-word inside a block comment, comment
          markers inside the quoted title
  droop   file-embedded options written as one [droop a b c] group or as several groups
  nick    with a [nick ...] option: ballots, [tie] and [withdrawn] written with nicknames instead of numbers
Oracle: the whole record as JSON (every action, every field, header) identical to the canonical presentation's for every variant, and dump() / report()
byte-identical for the first variant of each kind and every fifth variant (they are functions of the record).  For layout / comment / nick
variants the parsed profiles must already be attribute-for-attribute equal (then equal records follow from determinism and the
count is run for two rules only); perm and split variants are counted under every configuration.
Known finding F12: under guarded arithmetic the comparison statistics block (maxDiff/minDiff) changes when identical ballots are
merged or split; it is compared separately so that this one difference is one signature and any other difference a violation.
"""
import itertools
import json
from .. import ecase, families, configs, spaces, trace, blt
from ..driver import Check, h64
from . import common

STAT_PREFIX = ('\tmaxDiff:', '\tgeps:', '\tminDiff:', '\tguard:', '\tprec:')


def compositions(m):
    if m == 0:
        yield ()
        return
    for first in range(1, m + 1):
        for rest in compositions(m - first):
            yield (first,) + rest


def tokens(case, ballots, nick=None, use_nick=False, droop_groups=None):
    "token list of a BLT file, grouped in lines (list of lists)"
    n, s = case['n'], case['s']
    ref0 = (lambda c: nick[c - 1]) if (nick and use_nick) else str

    def ref(c):
        return '='.join(ref0(x) for x in c) if isinstance(c, (tuple, list)) else ref0(c)
    lines = [[str(n), str(s)]]
    if case.get('droop'):
        for grp in (droop_groups or [case['droop']]):
            lines.append(['[droop'] + list(grp[:-1]) + [grp[-1] + ']'])
    if nick:
        lines.append(['[nick'] + list(nick[:-1]) + [nick[-1] + ']'])
    tie = case.get('tie')
    if tie:
        lines.append(['[tie'] + [ref(c) for c in tie[:-1]] + [ref(tie[-1]) + ']'])
    wd = case.get('wd')
    if wd:
        lines.append(['[withdrawn'] + [ref(c) for c in wd[:-1]] + [ref(wd[-1]) + ']'])
    for m, r in ballots:
        lines.append([str(m)] + [ref(c) for c in r] + ['0'])
    lines.append(['0'])
    for i in range(1, n + 1):
        lines.append(['"C%d"' % i])
    lines.append(['"T"'])
    return lines


def join(lines, eol='\n', sep=' '):
    return eol.join(sep.join(l) for l in lines) + eol


def outcome(t, deep):
    "what a presentation must not change: the whole record as JSON (actions and header), and -- deep -- dump and report text"
    E = t.E
    js = json.loads(E.json())
    stats = js.pop('arithmetic_report', None)
    o = {'actions': js['actions'], 'json': js, 'stats': stats}
    if deep:
        rep = E.report()
        o['report'] = '\n'.join(l for l in rep.split('\n') if not l.startswith(STAT_PREFIX))
        o['dump'] = E.dump()
    return o


def profile_sig(p):
    return (p.title, p.source, p.comment, p.nSeats, p.nCand, p.nBallots, sorted(p.eligible), sorted(p.withdrawn), sorted(p.undeclared),
            sorted(p.candidateName.items()), sorted(p.candidateOrder.items()), sorted(p.tieOrder.items()), sorted(p.nickName.items()),
            list(p.options), [(b.multiplier, list(b.ranking)) for b in p.ballotLines],
            [(b.multiplier, [list(x) for x in b.ranking]) for b in p.ballotLinesEqual])


class C10(Check):
    pid = 'C10'
    level = 'exploration'
    rule = ('U(3,<=4) x seats x {none, reversed tie order, one withdrawn} and quick: U(3,<=3) in full, U(3,4) and weighted W(3,2,3,{2,3}) x seats {1,2} under a subset of configurations; thorough: U(3,<=4) in full, W(3,3,3,{2,3,5}), U(3,5), W(4,2,3,{1,2,3}); every presentation variant of the '
            'module docstring is generated for each profile; 11 rules + wigm fixed-2 / fixed-4 / guarded 6+3 and meek fixed-4 for the perm/split variants; equal-rank profiles Q(3,<=3) under meek / warren with fixed, guard-0 and rational arithmetic. '
            'evaluations = variant runs compared with the canonical run; distinct_nontrivial = distinct (profile, configuration, variant) whose count is not decided at begin')
    assumptions = ['bounded election sizes', 'simple candidate names (C15 covers names with spaces / comment markers)']
    budget = {'quick': 240, 'thorough': 3000}

    def cases(self, tier):
        extra = [{'rule': 'wigm', 'arithmetic': 'fixed', 'precision': 2}, {'rule': 'wigm', 'arithmetic': 'fixed', 'precision': 4},
                 {'rule': 'wigm', 'arithmetic': 'guarded', 'precision': 6, 'guard': 3}, {'rule': 'meek', 'arithmetic': 'fixed', 'precision': 4}]
        D = configs.DEFAULTS + extra
        q = tier == 'quick'
        for b in spaces.U(3, 0, 3 if q else 4):
            for s in (1, 2, 3):
                yield dict(ecase.make(3, s, b), cfgs=D, full=True, allperm=True)
                if s < 3:
                    yield dict(ecase.make(3, s, b, tie=(3, 2, 1)), cfgs=D[:6], full=False, allperm=True)
            for wd in ((1,), (3,)):
                if families.valid_after_removal(3, 1, b, wd):
                    yield dict(ecase.make(3, 1, b, wd=wd), cfgs=D[:6], full=True, allperm=True)
        if q:
            for b in spaces.U(3, 4, 4):
                for s in (1, 2):
                    yield dict(ecase.make(3, s, b), cfgs=configs.DEFAULTS[::3] + extra[2:], full=False)
                for wd in ((1,), (3,)):
                    # several identical ballots that rank only a withdrawn candidate: merged they are dropped once, split they are dropped line by line
                    if families.valid_after_removal(3, 1, b, wd) and any(m >= 2 and set(r) <= set(wd) for m, r in b):
                        yield dict(ecase.make(3, 1, b, wd=wd), cfgs=D[:4], full=False, allperm=False)
        for b in (spaces.W(3, 2, 3, (2, 3)) if q else spaces.W(3, 3, 3, (2, 3, 5))):
            for s in (1, 2):
                yield dict(ecase.make(3, s, b), cfgs=D[::3] if q else D, full=False, allperm=True)
        eq = [{'rule': 'meek', 'arithmetic': 'fixed', 'precision': 4}, {'rule': 'warren', 'arithmetic': 'rational', 'omega': 3}, {'rule': 'meek'},
              {'rule': 'warren', 'arithmetic': 'guarded', 'precision': 4, 'guard': 0}]
        for b in spaces.Q(3, 0, 3 if q else 4):        # equal-rank ballots (read by meek / warren): merged vs split vs permuted
            if max(m for m, _ in b) > 1 or not q:
                yield dict(ecase.make(3, 1, b), cfgs=eq, full=False, allperm=True)
        for b in spaces.U(3, 0, 3):                    # options embedded in the file, written as one or several [droop ...] groups
            yield dict(ecase.make(3, 1, b), cfgs=[{'rule': 'meek'}, {'rule': 'wigm'}], full=False, allperm=False,
                       droop=['arithmetic=fixed', 'precision=3', 'omega=2'])
        if not q:
            for b in spaces.U(3, 5, 5):
                for s in (1, 2):
                    yield dict(ecase.make(3, s, b), cfgs=configs.DEFAULTS, full=False)
            for b in spaces.W(4, 2, 3, (1, 2, 3)):
                for s in (2, 3):
                    yield dict(ecase.make(4, s, b), cfgs=configs.DEFAULTS, full=False, allperm=True)

    def variants(self, case):
        "yield (kind, text, recount_all) for every presentation variant"
        ballots = [(m, tuple(tuple(x) if isinstance(x, list) else x for x in r)) for m, r in case['b']]
        n = case['n']
        # perm
        k = len(ballots)
        if k <= 3 or case.get('allperm'):
            perms = list(itertools.permutations(range(k)))
        else:   # reversal, rotation, every adjacent swap (the thorough tier runs all k! orders)
            ident = list(range(k))
            perms = [tuple(reversed(ident)), tuple(ident[1:] + ident[:1])] + \
                [tuple(ident[:i] + [ident[i + 1], ident[i]] + ident[i + 2:]) for i in range(k - 1)]
        for perm in perms:
            if perm != tuple(range(k)):
                yield 'perm', join(tokens(case, [ballots[i] for i in perm])), True
        # split (one line at a time, all compositions), fully split, fully split reversed
        for i, (m, r) in enumerate(ballots):
            if m > 1:
                for comp in compositions(m):
                    if len(comp) > 1:
                        yield 'split', join(tokens(case, ballots[:i] + [(x, r) for x in comp] + ballots[i + 1:])), True
        units = [(1, r) for m, r in ballots for _ in range(m)]
        if len(units) != len(ballots):
            yield 'split', join(tokens(case, units)), True
            yield 'split', join(tokens(case, units[::-1])), True
            inter = sorted(units, key=lambda x: h64(x))
            yield 'split', join(tokens(case, inter)), True
        if case.get('droop') and len(case['droop']) > 1:
            d = case['droop']
            yield 'droop-groups', join(tokens(case, ballots, droop_groups=[[x] for x in d])), True
            yield 'droop-groups', join(tokens(case, ballots, droop_groups=[d[:1], d[1:]])), True
        if not case.get('full'):
            return
        L = tokens(case, ballots)
        flat = [tok for l in L for tok in l]
        yield 'layout', join([[tok] for tok in flat]), False
        yield 'layout', ' '.join(flat) + '\n', False
        yield 'layout', ' '.join(flat), False
        yield 'layout', join(L, eol='\r\n'), False
        yield 'layout', join(L, sep='\t'), False
        yield 'layout', join(L, eol='\n\n', sep='  ') + '\n\n', False
        yield 'layout', '﻿' + join(L) if False else join(L, eol='\n \n'), False
        yield 'comment', join([l + ['# ballot line %d /* not a block' % i] for i, l in enumerate(L)]), False
        yield 'comment', join([['/* c%d */' % i] + l for i, l in enumerate(L)]), False
        yield 'comment', ' /* x */ '.join(flat) + '\n', False
        yield 'comment', join([l + ['/* outer /* inner */ still outer */'] for l in L]), False
        yield 'comment', join([['/*', 'multi'], ['line', '*/']] + L + [['# trailing']]), False
        yield 'comment', join([l + ['/* box #1 */'] for l in L[:-1]] + [L[-1]]), False
        nick = ['n%s' % 'abcdefg'[i] for i in range(n)]
        yield 'nick', (join(tokens(case, ballots, nick=nick)), join(tokens(case, ballots, nick=nick, use_nick=True))), False

    def check(self, case, acc):
        canon_text = join(tokens(case, [(m, tuple(tuple(x) if isinstance(x, list) else x for x in r)) for m, r in case['b']]))
        base = {}
        for cfg in case['cfgs']:
            t = trace.run(canon_text, cfg, snapshots=False)
            if not t.ok():
                acc.violation('C10|%s|%s' % (cfg['rule'], common.exc_sig(t)), 'canonical file failed: %r' % t.exc, common.one_cfg(case, cfg))
                continue
            base[configs.cfg_key(cfg)] = (outcome(t, True), common.nontrivial_trace(t))
        canon_prof = profile_sig(trace.run(canon_text, case['cfgs'][0], snapshots=False, count=False).profile)
        vi = 0
        deep_done = set()
        for kind, text, recount in self.variants(case):
            vi += 1
            ref_prof = canon_prof
            ref_base = base
            if kind == 'nick':
                ctext, text = text
                ref_prof = profile_sig(trace.run(ctext, case['cfgs'][0], snapshots=False, count=False).profile)
                ref_base = None
            cfgs = case['cfgs'] if recount else case['cfgs'][:2]
            if not recount:
                tp = trace.run(text, cfgs[0], snapshots=False, count=False)
                acc.evaluations += 1
                if tp.profile is None or tp.exc is not None:
                    acc.violation('C10|parse|%s' % kind, '%s variant rejected: %r\n%s' % (kind, tp.exc, text), dict(case, variant=vi))
                    continue
                if profile_sig(tp.profile) != ref_prof:
                    acc.violation('C10|profile|%s' % kind, '%s variant parses to a different profile:\n%s' % (kind, text), dict(case, variant=vi))
                    cfgs = case['cfgs']
            for cfg in cfgs:
                key = configs.cfg_key(cfg)
                if ref_base is None:
                    tb = trace.run(ctext, cfg, snapshots=False)
                    if not tb.ok():
                        continue
                    ref = (outcome(tb, True), common.nontrivial_trace(tb))
                elif key in ref_base:
                    ref = ref_base[key]
                else:
                    continue
                t = trace.run(text, cfg, snapshots=False)
                acc.evaluations += 1
                one = dict(common.one_cfg(case, cfg), variant=vi)
                if not t.ok():
                    acc.violation('C10|%s|%s|%s' % (cfg['rule'], kind, common.exc_sig(t)), '%s variant failed: %r\n%s' % (kind, t.exc, text), one)
                    continue
                deep = kind not in deep_done or vi % 5 == 0
                deep_done.add(kind)
                o = outcome(t, deep)
                r = ref[0]
                for part in ('actions', 'json', 'dump', 'report'):
                    if part in o and o[part] != r[part]:
                        acc.violation('C10|%s|%s|%s' % (cfg['rule'], kind, part),
                                      '%s of the %s variant differs from the canonical presentation (%s)\n%s'
                                      % (part, kind, ecase.short(case, cfg), text), one)
                        break
                else:
                    if o['stats'] != r['stats']:
                        if t.kind == 'guarded' and kind == 'split':
                            acc.violation('C10|guarded-statistics|split-merge',
                                          'guarded comparison statistics differ between merged and split presentation (%s): %r vs %r'
                                          % (ecase.short(case, cfg), r['stats'], o['stats']), one)
                        else:
                            acc.violation('C10|%s|%s|statistics' % (cfg['rule'], kind), 'arithmetic statistics differ (%s)' % ecase.short(case, cfg), one)
                if ref[1]:
                    acc.nontrivial.add(h64((case['n'], case['s'], case['b'], case.get('tie'), case.get('wd'), key, vi)))
            if vi == 1 and acc.cases % 3001 == 1:
                acc.sample({'case': ecase.short(case), 'variant_kind': kind, 'variant_text': text if isinstance(text, str) else text[1]})
        acc.stats['variants'] += vi


CHECK = C10()
