"""C17 -- option precedence holds, and statutory rules cannot be reconfigured.

(a) Options object alone: for each option name every assignment of {absent, v1, v2} to the four layers default / ballot-file /
    caller / forced (3^4 = 81) x spellings (int, digit string, boolean word; file layer through Options.parse of 'name=value'
    text): getopt(), the value returned by setopt(), record() (the four layers and the effective summary), unused() and
    overrides() against a ten-line model: forced > caller > file > default.
(b) through Election: 11 rules x option names x source in {ballot file [droop ...], caller, both with different values}: the
    effective value follows the model, record['options'] shows the layers, the report header names unused and overridden
    options; and through the command-line driver Droop.main: a rule embedded in the ballot file is used when the caller names none.
(c) immunity: the 8 statutory rule names x enumerated profiles x every single and every pair of perturbations from
    {arithmetic, precision, guard, display, omega, integer_quota, defeat_batch} supplied by the caller, by the ballot file, or one from each:
    actions, quota, arithmetic info, dump and every printed number identical to the unperturbed count.
"""
import itertools
import json
import os
import sys
import tempfile
from .. import ecase, families, configs, spaces, trace, blt, repo
from ..repo import Options
from ..driver import Check, h64
from . import common

NAMES = {
    'precision': (5, 7), 'guard': (0, 3), 'display': (2, 6), 'omega': (3, 8), 'integer_quota': (True, False),
    'defeat_batch': ('none', 'zero'), 'arithmetic': ('fixed', 'rational'), 'bogus': ('x', 4),
}
PERT = [('arithmetic', 'rational'), ('arithmetic', 'integer'), ('arithmetic', 'guarded'), ('precision', 0), ('precision', 2), ('precision', 12),
        ('guard', 0), ('guard', 3), ('display', 0), ('display', 2), ('display', 12), ('omega', 1), ('omega', 12),
        ('integer_quota', True), ('defeat_batch', 'none'), ('defeat_batch', 'zero'), ('defeat_batch', 'safe')]


def spell(v, how):
    if how == 'text':
        if v is True:
            return 'yes'
        if v is False:
            return 'no'
        return str(v)
    if how == 'str' and isinstance(v, int) and not isinstance(v, bool):
        return str(v)
    return v


def file_tokens(d):
    return ['%s=%s' % (k, spell(v, 'text')) for k, v in d.items()]


def header_lines(report):
    out = {}
    for ln in report.split('\n')[:16]:
        if ln.startswith('\tUnused options: '):
            out['unused'] = ln[len('\tUnused options: '):].split(', ')
        if ln.startswith('\tOverridden options: '):
            out['overridden'] = ln[len('\tOverridden options: '):].split(', ')
    return out


def strip_header(report):
    return '\n'.join(l for l in report.split('\n') if not l.startswith(('\tUnused options: ', '\tOverridden options: ')))


class C17(Check):
    pid = 'C17'
    level = 'exploration'
    rule = ('(a) 8 option names x 81 layer assignments x 3 spellings on the real Options class; (b) 11 rules x 8 option names x 3 sources through Election (and the CLI driver for the rule option); '
            '(c) 8 statutory rules x U(3,<=3) x seats (thorough U(3,<=4)) x every single perturbation from caller and from file and every pair (one from each source, and both from the caller). '
            'evaluations = model comparisons / perturbed counts; distinct_nontrivial = comparisons in which at least two layers carry different values, or perturbed counts of profiles not decided at begin')
    assumptions = ['perturbation values are drawn from a fixed menu of 17 (option, value) pairs', 'bounded election sizes']
    budget = {'quick': 240, 'thorough': 3000}

    def cases(self, tier):
        for name in NAMES:
            for how in ('plain', 'str', 'text'):
                yield {'k': 'opts', 'name': name, 'how': how}
        for r in configs.ALL11:
            yield {'k': 'election', 'rule': r}
        yield {'k': 'cli'}
        for i, b in enumerate(spaces.U(3, 0, 3 if tier == 'quick' else 4)):
            for s in (1, 2, 3):
                # every single perturbation on every profile; every pair on every profile (thorough) / on the first 120 profiles (quick)
                yield dict(ecase.make(3, s, b), k='immune', pairs=(tier == 'thorough' or (i < 120 and s == 2)))
        for b in spaces.W(4, 2, 3, (1, 2)) if tier == 'thorough' else spaces.W(3, 3, 3, (2, 5)):
            yield dict(ecase.make(4 if tier == 'thorough' else 3, 2, b), k='immune', single=True)

    # ------------------------------------------------------------------ (a)
    def opts(self, case, acc):
        name, how = case['name'], case['how']
        v1, v2 = NAMES[name]
        for default, fil, cmd, force in itertools.product((None, v1, v2), repeat=4):
            acc.evaluations += 1
            cmdd = {'rule': 'wigm'}
            if cmd is not None:
                cmdd[name] = spell(cmd, 'str' if how != 'plain' else 'plain')
            o = Options(dict(cmdd))
            if fil is not None:
                o.update(Options.parse(file_tokens({name: fil})) if how == 'text' else {name: spell(fil, how)}, file_options=True)
            ret = None
            if default is not None:
                ret = o.setopt(name, default=default)
            if force is not None:
                ret = o.setopt(name, default=force, force=True)
            # model
            d_layer = default if default is not None else force
            eff = d_layer
            for layer in (fil, cmd, force):
                if layer is not None:
                    eff = layer
            touched = default is not None or force is not None
            what = 'option %s layers default=%r file=%r caller=%r forced=%r (%s)' % (name, default, fil, cmd, force, how)
            got = o.getopt(name)
            if got != eff or type(got) is not type(eff):
                acc.violation('C17|options|getopt', 'getopt gives %r, precedence gives %r: %s' % (got, eff, what), case)
            if touched and (ret != eff):
                acc.violation('C17|options|setopt-return', 'setopt returned %r, effective value is %r: %s' % (ret, eff, what), case)
            rec = o.record()
            want_layers = {'cmd': cmd, 'file_options': fil, 'default': d_layer, 'force': force}
            for k, v in want_layers.items():
                if rec[k].get(name) != v:
                    acc.violation('C17|options|record-layer', 'record()[%r][%r] is %r, expected %r: %s' % (k, name, rec[k].get(name), v, what), case)
            if rec['options'].get(name) != eff:
                acc.violation('C17|options|record-effective', 'record()["options"][%r] is %r, effective value is %r: %s'
                              % (name, rec['options'].get(name), eff, what), case)
            want_unused = [name] if (not touched and (fil is not None or cmd is not None)) else []
            if o.unused() != want_unused:
                acc.violation('C17|options|unused', 'unused() is %r, expected %r: %s' % (o.unused(), want_unused, what), case)
            supplied = cmd if cmd is not None else fil
            want_over = [name] if (force is not None and supplied is not None and supplied != force) else []
            if o.overrides() != want_over:
                acc.violation('C17|options|overrides', 'overrides() is %r, expected %r: %s' % (o.overrides(), want_over, what), case)
            # the same Options object taken over by another rule: a later forced value replaces everything before it
            for later in (v2, v1):
                acc.evaluations += 1
                ret2 = o.setopt(name, default=later, force=True)
                if o.getopt(name) != later or ret2 != later or o.record()['force'].get(name) != later:
                    acc.violation('C17|options|reforce', 'after %s, forcing %r gives getopt %r (setopt returned %r)' % (what, later, o.getopt(name), ret2), case)
            if len({x for x in (default, fil, cmd, force) if x is not None}) > 1:
                acc.nontrivial_count += 1
        acc.sample({'k': 'opts', 'name': name, 'spelling': how, 'assignments': 81})

    # ------------------------------------------------------------------ (b)
    def election(self, case, acc):
        rule = case['rule']
        ballots = [(2, (1, 2)), (1, (2, 1)), (1, (3,))]
        for name, (v1, v2) in NAMES.items():
            for src in ('file', 'caller', 'both'):
                fil = {name: v1} if src in ('file', 'both') else {}
                cal = {name: v2 if src == 'both' else v1} if src in ('caller', 'both') else {}
                text = blt.render(3, 1, ballots, droop_opts=file_tokens(fil) or None)
                acc.evaluations += 1
                t = trace.run(text, dict(cal, rule=rule), snapshots=False)
                what = 'rule %s option %s file=%r caller=%r' % (rule, name, fil.get(name), cal.get(name))
                if t.E is None:
                    # an option value the rule / arithmetic rejects is a usage error, not a precedence matter
                    if isinstance(t.exc, (repo.UsageError, repo.values.ArithmeticValuesError, AssertionError)):
                        acc.stats['rejected_combinations'] += 1
                        continue
                    acc.violation('C17|%s|construct' % rule, 'Election() failed with %r: %s' % (t.exc, what), case)
                    continue
                if not t.ok():
                    if isinstance(t.exc, AssertionError):
                        acc.stats['rejected_combinations'] += 1
                        continue
                    acc.violation('C17|%s|count' % rule, 'count failed with %r: %s' % (t.exc, what), case)
                    continue
                o = t.E.options
                rec = t.E.erecord['options']
                forced = rec['force'].get(name)
                supplied = cal.get(name, fil.get(name))
                eff = forced if name in rec['force'] else (supplied if supplied is not None else rec['default'].get(name))
                if o.getopt(name) != eff or rec['options'].get(name) != eff:
                    acc.violation('C17|%s|effective' % rule, 'effective %s is %r / recorded %r, precedence gives %r: %s'
                                  % (name, o.getopt(name), rec['options'].get(name), eff, what), case)
                if rec['cmd'].get(name) != cal.get(name) or rec['file_options'].get(name) != fil.get(name):
                    acc.violation('C17|%s|layers' % rule, 'record layers cmd=%r file=%r: %s' % (rec['cmd'].get(name), rec['file_options'].get(name), what), case)
                hl = header_lines(t.E.report())
                known = name in rec['default']
                if (name in hl.get('unused', [])) != (not known):
                    acc.violation('C17|%s|report-unused' % rule, 'report lists unused %r, option known to the rule: %s: %s' % (hl.get('unused'), known, what), case)
                want_over = name in rec['force'] and supplied != forced
                if (name in hl.get('overridden', [])) != want_over:
                    acc.violation('C17|%s|report-overridden' % rule, 'report lists overridden %r, expected %s: %s' % (hl.get('overridden'), want_over, what), case)
                if src == 'both':
                    acc.nontrivial_count += 1
        acc.sample({'k': 'election', 'rule': rule})

    def cli(self, case, acc):
        "command-line driver: the ballot file's embedded rule is used when the caller names none; the caller's wins when given"
        if repo.REPO not in sys.path:
            sys.path.insert(0, repo.REPO)
        import importlib
        Droop = importlib.import_module('Droop')
        ballots = [(2, (1, 2)), (1, (2, 1)), (1, (3,))]
        for frule in configs.ALL11:
            for crule in (None, 'scotland', 'meek'):
                acc.evaluations += 1
                text = blt.render(3, 1, ballots, droop_opts=[frule, 'precision=5'])
                fd, path = tempfile.mkstemp(suffix='.blt')
                try:
                    with os.fdopen(fd, 'w') as f:
                        f.write(text)
                    opts = {'path': path}
                    if crule:
                        opts['rule'] = crule
                    try:
                        rep = Droop.main(dict(opts))
                    except Exception as e:     # pylint: disable=broad-except
                        acc.violation('C17|cli|failed', 'Droop.main failed with %r for file rule %s caller rule %s' % (e, frule, crule), case)
                        continue
                    # the driver's own options (path, rule, report/dump/json switches) are known options: never 'unused'
                    try:
                        rep2 = Droop.main(dict(opts, dump=True, json=True))
                        for ln in rep2.split('\n')[:14]:
                            if ln.startswith('\tUnused options: '):
                                bad = [x for x in ln[len('\tUnused options: '):].split(', ') if x in ('dump', 'json', 'report', 'path', 'rule')]
                                if bad:
                                    acc.violation('C17|cli|unused-lists-driver-options', 'report header lists %s as unused options (file rule %s, caller rule %s)' % (bad, frule, crule), case)
                    except Exception as e:     # pylint: disable=broad-except
                        acc.violation('C17|cli|failed', 'Droop.main with dump+json failed with %r' % e, case)
                    want = trace.run(text, {'rule': crule or frule}, snapshots=False)
                    info = want.E.rule.info()
                    if ('\tRule: %s\n' % info) not in rep:
                        acc.violation('C17|cli|rule-precedence', 'ballot file embeds rule %s, caller gives %s: the driver did not count with "%s"' % (frule, crule, info), case)
                    acc.nontrivial_count += 1
                finally:
                    os.unlink(path)

    # ------------------------------------------------------------------ (c)
    def immune(self, case, acc):
        n, s = case['n'], case['s']
        ballots = [(m, tuple(r)) for m, r in case['b']]
        base_text = blt.render(n, s, ballots)
        singles = [(k, v) for k, v in PERT]
        if case.get('single'):
            combos = [((kv,), ()) for kv in singles[::2]] + [((), (kv,)) for kv in singles[1::2]]
        elif not case.get('pairs', True):
            combos = [((kv,), ()) for kv in singles] + [((), (kv,)) for kv in singles]
        else:
            combos = [((kv,), ()) for kv in singles] + [((), (kv,)) for kv in singles]
            idx = range(len(singles))
            pairs = [(i, j) for i in idx for j in idx if i < j and singles[i][0] != singles[j][0]]
            combos += [((singles[i],), (singles[j],)) for i, j in pairs[::3]]
            combos += [((singles[i], singles[j]), ()) for i, j in pairs[1::3]]
            combos += [((singles[j],), (singles[i],)) for i, j in pairs[2::3]]
        for rule in configs.STATUTORY:
            t0 = trace.run(base_text, {'rule': rule}, snapshots=False)
            if not t0.ok():
                acc.violation('C17|%s|%s' % (rule, common.exc_sig(t0)), 'unperturbed count failed: %r' % t0.exc, case)
                continue
            js0 = json.loads(t0.E.json())
            js0.pop('options')
            d0 = t0.E.dump()
            r0 = strip_header(t0.E.report())
            nt = common.nontrivial_trace(t0)
            for ci, (cal, fil) in enumerate(combos):
                if case.get('only') is not None and ci != case['only']:
                    continue
                acc.evaluations += 1
                text = blt.render(n, s, ballots, droop_opts=file_tokens(dict(fil)) or None)
                t = trace.run(text, dict(dict(cal), rule=rule), snapshots=False)
                one = dict(case, only=ci)
                what = '%s caller=%s file=%s on %s' % (rule, dict(cal), dict(fil), ecase.short(case))
                if not t.ok():
                    acc.violation('C17|%s|immunity-failed' % rule, 'perturbed count failed with %r: %s' % (t.exc, what), one)
                    continue
                js = json.loads(t.E.json())
                js.pop('options')
                if js != js0:
                    keys = sorted(k for k in js0 if js.get(k) != js0[k])
                    acc.violation('C17|%s|immunity-record' % rule, 'record differs in %s under supplied options: %s' % (keys[:4], what), one)
                elif ci % 7 == 0 and (t.E.dump() != d0 or strip_header(t.E.report()) != r0):
                    acc.violation('C17|%s|immunity-rendering' % rule, 'dump/report differ under supplied options: %s' % what, one)
                if nt:
                    acc.nontrivial.add(h64((rule, s, case['b'], ci)))
        if acc.cases % 301 == 1:
            acc.sample({'k': 'immune', 'case': ecase.short(case), 'perturbation_sets': len(combos)})

    def check(self, case, acc):
        getattr(self, case['k'])(case, acc)


CHECK = C17()
