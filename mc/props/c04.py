"""C04 -- the quota is the prescribed one, and whoever reaches it is elected.

(a) quota model, recomputed independently from ballots, seats and the arithmetic's stored-unit scale:
      rational                      B/(s+1) exactly
      guarded with guard digits     floor(B*10^(p+g)/(s+1)) units   (quasi-exact: no epsilon)
      fixed / guarded guard=0       floor(B*10^p/(s+1)) + 1 units
      scotland, mpls, integer_quota floor(B/(s+1)) + 1 votes
      meek family                   the same formula applied to the votes credited in the snapshot, at the
                                    snapshots taken right after a distribution
      qpq                           va/(1+s-tx) in guarded floor arithmetic, va and tx recomputed from the
                                    ballot snapshot
(b) at every exclusion the excluded candidate does not hold a quota (mpls undeclared write-ins excepted) and
    -- mpls apart, which elects quota holders one at a time -- no hopeful candidate holds a quota at an
    exclusion or at the first surplus transfer of a round (the election step came first); at the end nobody
    holding a quota is defeated; qpq excludes only when no quotient exceeds the quota.
    'holds a quota' is evaluated as the rule evaluates it (>= ; > under exact; Guarded half-unit tolerance).
"""
from fractions import Fraction
from .. import ecase, families, configs, spaces
from ..driver import Check, h64
from . import common


def quota_model(t, cfg, total_units, seats):
    "prescribed quota (stored units) from a vote total given in stored units"
    rule = cfg['rule']
    if rule in ('scotland', 'mpls') or (rule == 'wigm' and cfg.get('integer_quota')):
        return (total_units // t.scale // (seats + 1) + 1) * t.scale if t.kind != 'rational' \
            else Fraction(int(total_units) // (seats + 1) + 1)
    if t.kind == 'rational':
        return Fraction(total_units) / (seats + 1)
    q = total_units // (seats + 1)
    if t.kind == 'guarded' and t.V.guard:
        return q
    return q + 1


class C04(Check):
    pid = 'C04'
    level = 'model_checking'
    rule = ('C01 case space (+ weighted W(3,3,3,{2,3,5}) (thorough {1,2,3,5,8}) profiles, + U(3,6) so that ballot counts divisible and not divisible '
            'by seats+1 occur for every seat number); the quota model is recomputed at every in-scope snapshot and compared to the '
            'last stored unit; states = distinct (rule, arithmetic, total, seats, quota) quota-model states, transitions = distinct consecutive quota pairs, '
            'traces_validated = real counts all of whose in-scope snapshots matched the model and whose exclusions/transfers respected clause (b). '
            'non-trivial = counts with at least one exclusion or transfer at which clause (b) was evaluated')
    assumptions = ['bounded election sizes', 'has-quota is evaluated with the rule\'s own comparison (Guarded tolerance)']
    budget = {'quick': 240, 'thorough': 3000}

    def cases(self, tier):
        yield from families.standard(tier)
        eq = [{'rule': 'meek', 'arithmetic': 'fixed', 'precision': 4}, {'rule': 'warren', 'arithmetic': 'rational', 'omega': 3}, {'rule': 'meek'},
              {'rule': 'warren', 'arithmetic': 'fixed', 'precision': 2}]
        yield from families.seats_ties(3, spaces.Q(3, 0, 3), ties='id', cfgs=eq)       # equal-rank first preferences (meek / warren)
        D = configs.DEFAULTS
        if tier == 'quick':
            yield from families.seats_ties(3, spaces.W(3, 3, 3, (2, 3, 5)), seats=(1, 2), ties='id',
                                           cfgs=D + configs.wigm_menu()[::7] + configs.meek_menu()[::7])
        else:
            yield from families.seats_ties(3, spaces.W(3, 3, 3, (1, 2, 3, 5, 8)), seats=(1, 2), ties='id',
                                           cfgs=D + configs.wigm_menu()[::2] + configs.meek_menu()[::2])

    def check(self, case, acc):
        n, seats = case['n'], case['s']
        ud = set(case.get('ud') or ())
        for cfg, t, one in common.runs(case, snapshots=True):
            acc.evaluations += 1
            rule = cfg['rule']
            if t.E is None or t.kind is None:
                acc.violation('C04|%s|%s' % (rule, common.exc_sig(t)), 'no election: %r' % t.exc, one)
                continue
            B = t.profile.nBallots * t.scale
            names = common.names_of(t)
            mults = [int(t.unit_value(b.multiplier)) for b in t.E.ballots]
            ranklen = [len(b.ranking) for b in t.E.ballots]
            bad = False
            evaluated = 0
            prevq = None
            first_unpend_round = None
            first_defeat_round = None
            sts = common.steps(t)

            def viol(kind, msg, s):
                nonlocal bad
                bad = True
                acc.violation('C04|%s|%s' % (rule, kind), '%s at action %d (%s: %s) of %s'
                              % (msg, s.i, s.tag, s.msg, ecase.short(case, cfg)), one)

            # (a) header quota
            rq = t.E.erecord.get('quota')
            if rq is not None and sts:
                first = sts[0]
                if t.units(rq) != first.q:
                    viol('header-quota', 'record quota %s differs from the first action quota %s' % (rq, first.A['quota']), first)
            for s in sts:
                # ---- (a) formula
                want = None
                if t.method == 'wigm':
                    want = quota_model(t, cfg, B, seats)
                elif t.method == 'meek':
                    inscope = False
                    if rule == 'meek-prf':
                        inscope = s.tag in ('begin', 'tie') or (s.tag == 'elect' and s.msg.startswith('Elect: ')) or \
                            (s.tag == 'defeat' and not s.msg.startswith('Defeat remaining'))
                    else:
                        inscope = s.tag == 'iterate' or (s.tag == 'elect' and s.msg.startswith('Elect: '))
                    if inscope:
                        want = quota_model(t, cfg, sum(s.vote.values()), seats)
                    elif s.tag == 'begin':
                        # before the first distribution the quota is the one of the ballots cast (equal-rank first preferences may credit
                        # a hair less than one vote per ballot under truncating arithmetic; the initial quota does not depend on that)
                        want = quota_model(t, cfg, B, seats)
                elif t.method == 'qpq':
                    if s.tag in ('begin', 'tie') or (s.tag == 'elect' and s.msg.startswith('Elect high')) or \
                            (s.tag == 'defeat' and s.msg.startswith('Defeat low')):
                        va = sum(m for (ix, _), m, L in zip(s.ballots, mults, ranklen) if ix < L) * t.scale
                        tx = sum(w * m for (ix, w), m, L in zip(s.ballots, mults, ranklen) if ix >= L)
                        want = (va * t.scale) // ((1 + seats) * t.scale - tx)
                if want is not None:
                    evaluated += 1
                    acc.states.add(h64((rule, t.kind, t.scale, seats, want)))
                    if prevq is not None and prevq != want:
                        acc.transitions.add(h64((rule, t.scale, seats, prevq, want)))
                    prevq = want
                    if s.q != want:
                        viol('formula', 'quota %s (units %s) but the prescribed quota is %s units of 1/%s'
                             % (s.A['quota'], s.q, want, t.scale), s)
                # ---- (b)
                q = s.q
                if t.method == 'qpq':
                    if s.tag == 'defeat' and s.msg.startswith('Defeat low'):
                        evaluated += 1
                        quot = {c: t.units(d['quotient']) for c, d in s.A['cstate'].items() if d.get('quotient') is not None}
                        # the excluded candidate is already marked defeated in this snapshot; its quotient still stands
                        cid = common.named(s.A, names)
                        over = [c for c, v in quot.items() if (s.st[c] == 'hopeful' or c == cid) and v - q >= t.geps]
                        if over:
                            viol('defeat-with-quota', 'exclusion although candidate(s) %s have a quotient above the quota' % over, s)
                    continue
                if s.tag == 'defeat':
                    evaluated += 1
                    cid = common.named(s.A, names)
                    if cid is not None and common.has_quota(t, s.vote[cid], q) and not (rule == 'mpls' and cid in ud):
                        viol('defeat-with-quota', 'candidate %s excluded while holding a quota (%s >= %s)' % (cid, s.vote[cid], q), s)
                    firstd = first_defeat_round != s.round
                    first_defeat_round = s.round
                    if rule != 'mpls' and (t.method != 'meek' or firstd):
                        hq = [c for c, x in s.st.items() if x == 'hopeful' and common.has_quota(t, s.vote[c], q)]
                        if hq:
                            viol('hopeful-with-quota', 'hopeful candidate(s) %s hold a quota at an exclusion' % hq, s)
                if s.tag == 'unpend' and s.msg.startswith('Transfer') and rule != 'mpls':
                    if first_unpend_round != s.round:
                        evaluated += 1
                        hq = [c for c, x in s.st.items() if x == 'hopeful' and common.has_quota(t, s.vote[c], q)]
                        if hq:
                            viol('hopeful-with-quota', 'hopeful candidate(s) %s hold a quota at a surplus transfer' % hq, s)
                    first_unpend_round = s.round
                if s.tag == 'end':
                    dq = [c for c, x in s.st.items() if x == 'defeated' and common.has_quota(t, s.vote[c], q)
                          and not (rule == 'mpls' and c in ud)]
                    if dq:
                        viol('defeated-holds-quota', 'candidate(s) %s end defeated while holding a quota' % dq, s)
                    hq = [c for c, x in s.st.items() if x == 'hopeful']
                    if hq:
                        viol('undecided', 'candidate(s) %s still hopeful at the end' % hq, s)
            if not bad and t.ok():
                acc.traces_validated += 1
            if evaluated > 1:
                acc.nontrivial.add(h64((n, seats, case['b'], case.get('tie'), case.get('wd'), case.get('ud'), configs.cfg_key(cfg))))
                acc.stats['quota_and_clause_evaluations'] += evaluated
                if len(acc.nontrivial) % 60000 == 1:
                    acc.sample({'case': ecase.short(case, cfg), 'quotas': sorted({str(s.A['quota']) for s in sts})[:6]})
            if (t.profile.nBallots % (seats + 1)) == 0:
                acc.stats['ballots_divisible_by_seats+1'] += 1


CHECK = C04()
