"""C08 -- Meek/Warren iterations keep their invariants and stop only when converged.

Oracle at the snapshots taken right after a distribution (meek/warren: every 'iterate' and 'end';
meek-prf: 'begin', in-iteration 'Elect: ...', 'tie', pre-exclusion 'defeat', 'end'):
  * sum(tallies) + residual == ballots exactly; no tally / residual negative
  * keep factors: 1 for hopeful, 0 for defeated (the candidate named by the current 'defeat' action is still
    pre-exclusion), 0 < kf <= 1 for elected
  * the recorded total surplus equals sum(tally - quota) over the elected, recomputed from the snapshot
  * 'Iterate (omega)'  => surplus <= omega (omega recomputed independently from the configuration)
    'Iterate (stable)' => a 'Stable state detected' log precedes it in the round
  * every exclusion other than 'Defeat remaining' follows, in its round, an iterate exit of kind omega / stable /
    batch (never a batch when defeat_batch=none) and never 'elected'; meek-prf (no iterate action): surplus < omega at the defeat snapshot or the stable
    log precedes, and no election happened in that round
"""
from fractions import Fraction
from .. import ecase, families, configs, spaces
from ..driver import Check, h64
from . import common


def omega10_of(cfg, t):
    if cfg['rule'] == 'meek-prf':
        return 6
    if 'omega' in cfg:
        return int(cfg['omega'])
    if t.kind == 'guarded':
        return t.V.precision // 2
    if t.kind == 'fixed':
        return t.V.precision * 2 // 3
    return 10


def omega_units(cfg, t):
    w = omega10_of(cfg, t)
    if t.kind == 'rational':
        return Fraction(1, 10 ** w)
    return t.scale // (10 ** w)


def in_scope(rule, s):
    if rule in ('meek', 'warren'):
        return s.tag in ('iterate', 'end')
    if s.tag in ('begin', 'tie', 'end'):
        return True
    if s.tag == 'elect':
        return s.msg.startswith('Elect: ')
    if s.tag == 'defeat':
        return not s.msg.startswith('Defeat remaining')
    return False


class C08(Check):
    pid = 'C08'
    level = 'model_checking'
    rule = ('meek, warren (full arithmetic x omega x defeat_batch menu, including omega below one unit which forces the stable-state exit, and omega = 10^-140 at 150+150 digits so that every round needs hundreds of distributions) and meek-prf '
            'on U(3,<=4) x seats; defaults on U(3,5), W(4,2,3,{1,2}), weighted W(3,3,3,{1,2,3,5,8}); equal-rank profiles Q(3,<=3) and the 4-candidate QW(4) family for meek/warren '
            '(thorough: Q(3,4), U(3,6), W(4,2,4,{1,2,3}), full menu on more). states = distinct in-scope snapshots (statuses, keep factors, tallies, residual), '
            'transitions = distinct consecutive pairs, traces_validated = real counts whose every in-scope snapshot and every iteration exit satisfied the model. '
            'non-trivial = counts with at least one iteration round that did not end by electing')
    assumptions = ['bounded election sizes', 'meek/warren with rational arithmetic only on the smallest space under a CPU budget (thorough)']
    budget = {'quick': 240, 'thorough': 3000}

    def cases(self, tier):
        D = [{'rule': 'meek'}, {'rule': 'warren'}, {'rule': 'meek-prf'}]
        menu = configs.meek_menu()
        yield from families.seats_ties(2, spaces.U(2, 0, 6), cfgs=D + menu[::4])
        yield from families.seats_ties(3, spaces.U(3, 0, 4), cfgs=D)
        yield from families.seats_ties(3, spaces.U(3, 0, 4), ties='id', cfgs=menu)
        yield from families.seats_ties(3, spaces.U(3, 0, 3), ties='id', cfgs=configs.MEEK_DEEP)
        yield from families.seats_ties(3, spaces.Q(3, 0, 3), ties='id', cfgs=D[:2] + menu[::3])
        yield from families.seats_ties(4, spaces.W(4, 2, 3, (1, 2)), seats=(1, 2, 3), ties='id', cfgs=D + menu[::6])
        yield from families.withdrawn_family(3, spaces.U(3, 0, 4), D, seats=(1, 2))
        yield from families.seats_ties(4, spaces.QW(4), seats=(1, 2), ties='id', cfgs=D[:2] + menu[2::11])
        yield from families.seats_ties(3, spaces.U(3, 5, 5), ties='id', cfgs=D + menu[::8])
        yield from families.seats_ties(3, spaces.W(3, 3, 3, (1, 2, 3, 5, 8)), seats=(1, 2), ties='id',
                                       cfgs=D if tier == 'quick' else D + menu[::4])
        if tier == 'thorough':
            yield from families.seats_ties(3, spaces.Q(3, 4, 4), ties='id', cfgs=D[:2] + menu[::5])
            yield from families.seats_ties(3, spaces.U(3, 5, 5), ties='id', cfgs=menu)
            yield from families.seats_ties(4, spaces.W(4, 2, 4, (1, 2, 3)), seats=(1, 2, 3), ties='id', cfgs=D + menu[::9])
            yield from families.seats_ties(3, spaces.U(3, 6, 6), ties='id', cfgs=D + menu[::8])
            rat = [{'rule': 'meek', 'arithmetic': 'rational', 'omega': 3}, {'rule': 'warren', 'arithmetic': 'rational', 'omega': 3}]
            for c in families.seats_ties(3, spaces.U(3, 0, 3), ties='id', cfgs=rat):
                c['alarm'] = 2
                yield c

    def check(self, case, acc):
        for cfg, t, one in common.runs(case, snapshots=False, alarm=case.get('alarm', 20)):
            acc.evaluations += 1
            rule = cfg['rule']
            if t.E is None or t.kind is None:
                acc.violation('C08|%s|%s' % (rule, common.exc_sig(t)), 'no election: %r' % t.exc, one)
                continue
            if not t.ok() and case.get('alarm'):
                acc.stats['rational_budget_overrun_not_explored'] += 1
                continue
            B = t.profile.nBallots * t.scale
            one_u = t.scale if t.kind != 'rational' else 1
            names = common.names_of(t)
            omega = omega_units(cfg, t)
            rec_omega = t.E.erecord.get('omega')
            bad = False
            nontriv = False

            def viol(kind, msg, s):
                nonlocal bad
                bad = True
                acc.violation('C08|%s|%s' % (rule, kind), '%s at action %d (%s: %s) of %s'
                              % (msg, s.i, s.tag, s.msg, ecase.short(case, cfg)), one)

            # per-round bookkeeping
            cur_round = None
            exit_kind = None
            stable_logged = False
            elected_in_round = False
            prevkey = None
            sts = common.steps(t)
            # stable logs are 'log' actions: scan the raw actions for their positions
            stable_at = [i for i, A in enumerate(t.actions) if A['tag'] == 'log' and A['msg'].startswith('Stable state detected')]
            round_start = 0
            if rec_omega is not None and sts and t.units(rec_omega) != omega:
                viol('omega-config', 'recorded omega %s differs from the configured 1/10^%d' % (rec_omega, omega10_of(cfg, t)), sts[0])
            for s in sts:
                if s.tag == 'round':
                    cur_round = s.round
                    exit_kind = None
                    elected_in_round = False
                    round_start = s.i
                stable_logged = any(round_start < i < s.i for i in stable_at)
                if s.tag == 'elect' and s.msg.startswith('Elect: '):
                    elected_in_round = True
                kf = {c: t.units(d['kf']) for c, d in s.A['cstate'].items() if d.get('kf') is not None}
                if in_scope(rule, s):
                    tot = sum(s.vote.values()) + s.residual
                    if tot != B:
                        viol('total', 'votes + residual = %s, ballots = %s (units)' % (tot, B), s)
                    if any(v < 0 for v in s.vote.values()) or s.residual < 0:
                        viol('negative', 'negative tally or residual', s)
                    cur_named = common.named(s.A, names) if s.tag == 'defeat' else None
                    for c, x in s.st.items():
                        if x == 'withdrawn':
                            continue
                        k = kf.get(c)
                        if k is None:
                            viol('kf-missing', 'candidate %s has no keep factor' % c, s)
                        elif x == 'hopeful' and k != one_u:
                            viol('kf-hopeful', 'hopeful candidate %s has keep factor %s' % (c, k), s)
                        elif x == 'defeated' and c != cur_named and k != 0:
                            viol('kf-defeated', 'defeated candidate %s has keep factor %s' % (c, k), s)
                        elif x == 'defeated' and c == cur_named and k != one_u:
                            viol('kf-preexclusion', 'candidate %s being excluded has keep factor %s' % (c, k), s)
                        elif x == 'elected' and not 0 < k <= one_u:
                            if k == 0 and t.kind == 'guarded' and t.V.guard and 2 * omega10_of(cfg, t) > t.V.precision + t.V.guard:
                                # F15: Guarded with guard digits ignores round='up'; kf*quota underflows to exactly 0
                                viol('kf-elected-underflow-guarded', 'elected candidate %s has keep factor 0 (kf*quota underflows %d+%d digits at omega 10^-%d)'
                                     % (c, t.V.precision, t.V.guard, omega10_of(cfg, t)), s)
                            else:
                                viol('kf-elected', 'elected candidate %s has keep factor %s' % (c, k), s)
                    key = h64((tuple(sorted(s.st.items())), tuple(sorted(kf.items())), tuple(sorted(s.vote.items())), s.residual))
                    acc.states.add(key)
                    if prevkey is not None and prevkey != key:
                        acc.transitions.add(h64((prevkey, key)))
                    prevkey = key
                if s.tag == 'iterate':
                    kind = s.msg[s.msg.find('(') + 1:s.msg.rfind(')')]
                    exit_kind = kind
                    sur = sum(s.vote[c] - s.q for c, x in s.st.items() if x == 'elected')
                    if common.g_lt(t, sur, 0):      # a total below zero (in the arithmetic's own comparison) is taken as zero
                        sur = 0
                    if s.surplus != sur:
                        viol('surplus-value', 'recorded surplus %s, sum over elected of tally-quota (not below 0) is %s' % (s.surplus, sur), s)
                    if kind == 'omega':
                        nontriv = True
                        if not s.surplus <= omega:
                            viol('omega-exit', 'iteration ended for convergence with surplus %s > omega %s' % (s.surplus, omega), s)
                    elif kind == 'stable':
                        nontriv = True
                        acc.stats['stable_exits'] += 1
                        if not stable_logged:
                            viol('stable-unlogged', 'stable exit without a "Stable state detected" log', s)
                    elif kind == 'batch':
                        nontriv = True
                        acc.stats['batch_exits'] += 1
                        if cfg.get('defeat_batch') == 'none' or rule == 'meek-prf':
                            viol('batch-despite-none', 'iteration ended to exclude a batch although defeat_batch=none', s)
                    elif kind == 'elected':
                        if not elected_in_round:
                            viol('elected-exit', 'iteration ended "elected" but nobody was elected in the round', s)
                    else:
                        viol('exit-kind', 'unknown iteration exit %r' % kind, s)
                if s.tag == 'defeat' and not s.msg.startswith('Defeat remaining'):
                    nontriv = True
                    if rule in ('meek', 'warren'):
                        if exit_kind not in ('omega', 'stable', 'batch'):
                            viol('exclusion-before-convergence', 'exclusion after iteration exit %r' % exit_kind, s)
                        if exit_kind == 'batch' and 'certain loser' not in s.msg:
                            viol('exclusion-kind', 'batch exit followed by %r' % s.msg, s)
                    else:
                        sur = max(0, sum(s.vote[c] - s.q for c, x in s.st.items() if x == 'elected'))
                        if s.surplus != sur:
                            viol('surplus-value', 'recorded surplus %s, recomputed %s' % (s.surplus, sur), s)
                        if elected_in_round:
                            viol('exclusion-before-convergence', 'exclusion in a round that elected a candidate', s)
                        if not (s.surplus < omega or stable_logged):
                            viol('exclusion-before-convergence', 'exclusion with surplus %s >= omega %s and no stable log' % (s.surplus, omega), s)
                        if stable_logged:
                            acc.stats['stable_exits'] += 1
            if not bad and t.ok():
                acc.traces_validated += 1
            if nontriv:
                acc.nontrivial.add(h64((case['n'], case['s'], case['b'], case.get('tie'), case.get('wd'), configs.cfg_key(cfg))))
                if len(acc.nontrivial) % 30000 == 1:
                    acc.sample({'case': ecase.short(case, cfg),
                                'in_scope_snapshots': [[s.tag, s.msg, str(s.A['votes']), str(s.A['residual']), str(s.A['surplus'])]
                                                       for s in sts if in_scope(rule, s)][:8]})
            if t.E.ballotsEqual:
                acc.stats['counts_with_equal_rank_ballots'] += 1


CHECK = C08()
