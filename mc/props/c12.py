"""C12 -- fixed-point, integer and rational arithmetic compute exactly what they claim.

Exhaustive operand grids, oracle = Python ints / fractions.Fraction on the stored values:
  Fixed p in {0(integer),1,2,3,4}: every pair of stored integers in [-150,150] (thorough [-400,400]) for + - * / == != < <= > >=,
      mul/div with round up/down; every (value, int) pair for V*int, V//int, V+int, V-int; every triple in [-20,20] (thorough [-45,45])
      for muldiv up/down; neg/abs/pos/bool; min over all lists of <= 3 values from [-6,6];
      the same grids at a third / half of the range with display < precision (display must not touch the arithmetic);
      a boundary list {0, +-1, +-(10^p-1), +-10^p, +-(10^p+1), 10^18+-1, +-(10^40+7), ...} crossed with itself for
      p in {4,5,9,18}; missing round= raises ValueError
  Rational: all a/b, c/d with |a|,|c| <= 20, 1 <= b,d <= 9 (thorough 40, 13), same operations, mixed int operands, third operand grid for muldiv
Laws: + - and *int exact; products / quotients / muldiv = floor(exact * 10^p) (toward minus infinity), or exactly one
unit higher when round='up' and the result is inexact; comparisons agree with the exact values; type(result) is the class.
Division by zero is outside the claim.
"""
import itertools
from fractions import Fraction
from .. import arith
from ..repo import Fixed, Rational
from ..driver import Check


class C12(Check):
    pid = 'C12'
    level = 'exploration'
    rule = ('complete operand grids (see module docstring): each (class, precision, operation, operands) combination is evaluated once on the real '
            'class and compared with exact integer/Fraction arithmetic; evaluations = primitive operations checked; '
            'distinct_nontrivial = operations whose exact result is not representable (rounding decides the answer) or has a negative operand/result, '
            'distinct by construction (disjoint grid cells)')
    assumptions = ['operand magnitudes beyond the grids are represented only by the fixed boundary list', 'division by zero excluded']
    budget = {'quick': 240, 'thorough': 3000}

    def cases(self, tier):
        R = 150 if tier == 'quick' else 400
        T = 20 if tier == 'quick' else 45
        for p in (0, 1, 2, 3, 4):
            for a in range(-R, R + 1):
                yield {'k': 'fx-bin', 'p': p, 'a': a, 'R': R}
            if p:
                # the display setting must not touch the arithmetic: same grid (smaller) with display < precision
                for d in sorted({0, p - 1}):
                    for a in range(-R // 3, R // 3 + 1):
                        yield {'k': 'fx-bin', 'p': p, 'a': a, 'R': R // 3, 'd': d}
                    for a in range(-T // 2, T // 2 + 1):
                        yield {'k': 'fx-tri', 'p': p, 'a': a, 'T': T // 2, 'd': d}
            for a in range(-T, T + 1):
                yield {'k': 'fx-tri', 'p': p, 'a': a, 'T': T}
            yield {'k': 'fx-misc', 'p': p}
        for p in (4, 5, 9, 18):
            yield {'k': 'fx-bound', 'p': p}
        N = 20 if tier == 'quick' else 40
        D = 9 if tier == 'quick' else 13
        for a in range(-N, N + 1):
            for b in range(1, D + 1):
                yield {'k': 'rat', 'a': a, 'b': b, 'N': N, 'D': D}
        yield {'k': 'rat-misc'}

    # ---------------------------------------------------------------- fixed
    def bin_ops(self, V, p, a, b, acc, case):
        scale = 10 ** p
        x, y = V(a, True), V(b, True)

        def chk(name, got, want, inexact=False):
            acc.evaluations += 1
            if inexact or a < 0 or b < 0:
                acc.nontrivial_count += 1
            if type(got) is not V:
                acc.violation('C12|fixed|type|%s' % name, '%s(%s,%s) at p=%d returned %r of type %s' % (name, a, b, p, got, type(got).__name__), case)
            elif got._value != want:
                acc.violation('C12|fixed|%s' % name, '%s of stored %s and %s at precision %d gives stored %s, exact law gives %s'
                              % (name, a, b, p, got._value, want), case)
        chk('add', x + y, a + b)
        chk('sub', x - y, a - b)
        pr = a * b
        chk('mul-op', x * y, pr // scale, pr % scale != 0)
        chk('mul-down', V.mul(x, y, round='down'), pr // scale, pr % scale != 0)
        chk('mul-up', V.mul(x, y, round='up'), arith.ceil_div(pr, scale), pr % scale != 0)
        if b != 0:
            n = a * scale
            chk('div-op', x / y, n // b, n % b != 0)
            chk('floordiv-op', x // y, n // b, n % b != 0)
            chk('div-down', V.div(x, y, round='down'), n // b, n % b != 0)
            chk('div-up', V.div(x, y, round='up'), arith.ceil_div(n, b), n % b != 0)
        for name, got, want in (('eq', x == y, a == b), ('ne', x != y, a != b), ('lt', x < y, a < b),
                                ('le', x <= y, a <= b), ('gt', x > y, a > b), ('ge', x >= y, a >= b)):
            acc.evaluations += 1
            if got is not want:
                acc.violation('C12|fixed|cmp-%s' % name, 'stored %s %s %s at p=%d gives %r' % (a, name, b, p, got), case)
        if x._value != a or y._value != b:
            acc.violation('C12|fixed|operand-mutated', 'an operand was modified by an operation (%s,%s)' % (a, b), case)

    def int_ops(self, V, p, a, k, acc, case):
        scale = 10 ** p
        x = V(a, True)
        for name, fn, want, inexact in (('mul-int', lambda: x * k, a * k, False), ('add-int', lambda: x + k, a + k * scale, False),
                                        ('sub-int', lambda: x - k, a - k * scale, False)):
            acc.evaluations += 1
            got = fn()
            if type(got) is not V or got._value != want:
                acc.violation('C12|fixed|%s' % name, '%s: stored %s with int %s at p=%d gives %r, exact %s' % (name, a, k, p, got, want), case)
        if k != 0:
            acc.evaluations += 1
            got = x // k
            if a % k:
                acc.nontrivial_count += 1
            if type(got) is not V or got._value != a // k:
                acc.violation('C12|fixed|floordiv-int', 'stored %s // int %s at p=%d gives %r, floor is %s' % (a, k, p, got, a // k), case)

    def check(self, case, acc):
        k = case['k']
        if k.startswith('fx'):
            p = case['p']
            V = arith.init_fixed(p, display=case.get('d'), integer=(p == 0))
            if V.name != ('integer' if p == 0 else 'fixed') or V.precision != p:
                acc.violation('C12|fixed|init', 'initialize gave name %s precision %s for p=%d' % (V.name, V.precision, p), case)
            scale = 10 ** p
        if k == 'fx-bin':
            a = case['a']
            for b in range(-case['R'], case['R'] + 1):
                self.bin_ops(V, p, a, b, acc, case)
            for i in range(-7, 8):
                self.int_ops(V, p, a, i, acc, case)
            x = V(a, True)
            for name, got, want in (('neg', -x, -a), ('abs', abs(x), abs(a)), ('pos', +x, a)):
                acc.evaluations += 1
                if type(got) is not V or got._value != want:
                    acc.violation('C12|fixed|%s' % name, '%s of stored %s gives %r' % (name, a, got), case)
            acc.evaluations += 1
            if bool(x) is not (a != 0):
                acc.violation('C12|fixed|bool', 'bool of stored %s is %r' % (a, bool(x)), case)
            acc.evaluations += 1
            got = V(a)      # int constructor scales
            if got._value != a * scale:
                acc.violation('C12|fixed|from-int', 'V(%d) stores %s' % (a, got._value), case)
        elif k == 'fx-tri':
            a = case['a']
            T = case['T']
            for b in range(-T, T + 1):
                for c in range(-T, T + 1):
                    if c == 0:
                        continue
                    n = a * b
                    for rnd, want in (('down', n // c), ('up', arith.ceil_div(n, c))):
                        acc.evaluations += 1
                        if n % c:
                            acc.nontrivial_count += 1
                        got = V.muldiv(V(a, True), V(b, True), V(c, True), round=rnd)
                        if type(got) is not V or got._value != want:
                            acc.violation('C12|fixed|muldiv-%s' % rnd, 'muldiv(%s,%s,%s,round=%s) at p=%d gives %r, exact law %s'
                                          % (a, b, c, rnd, p, got, want), case)
        elif k == 'fx-misc':
            if p == 0:
                # integer arithmetic is the zero-place case whatever precision option happens to be lying around
                from ..repo import Options
                for stray in (3, 5, '4'):
                    o = Options({'arithmetic': 'integer', 'precision': stray})
                    V.initialize(o)
                    acc.evaluations += 1
                    r = V(7) / V(2)
                    if V.name != 'integer' or V.precision != 0 or r._value != 3 or str(r) != '3':
                        acc.violation('C12|fixed|integer-with-precision-option', 'arithmetic=integer with a stray precision=%r gives name %s precision %s and 7/2 = %s'
                                      % (stray, V.name, V.precision, r), case)
                V = arith.init_fixed(0, integer=True)
            vals = range(-6, 7)
            for L in (1, 2, 3):
                for combo in itertools.product(vals, repeat=L):
                    acc.evaluations += 1
                    got = V.min([V(v, True) for v in combo])
                    if type(got) is not V or got._value != min(combo):
                        acc.violation('C12|fixed|min', 'min of stored %s gives %r' % (combo, got), case)
            one = V(1)
            for fn, nm in ((lambda: V.mul(one, one), 'mul'), (lambda: V.div(one, one), 'div'), (lambda: V.muldiv(one, one, one), 'muldiv'),
                           (lambda: V.mul(one, one, round='nearest'), 'mul-bad')):
                acc.evaluations += 1
                try:
                    fn()
                    acc.violation('C12|fixed|round-required', '%s without a valid round= did not raise ValueError' % nm, case)
                except ValueError:
                    pass
        elif k == 'fx-bound':
            bs = arith.boundary(p)
            for a in bs:
                for b in bs:
                    self.bin_ops(V, p, a, b, acc, case)
                for i in (-7, -1, 1, 3, 10 ** 20):
                    self.int_ops(V, p, a, i, acc, case)
            for a, b, c in itertools.product(bs[::3], bs[1::3], [v for v in bs[::2] if v]):
                n = a * b
                for rnd, want in (('down', n // c), ('up', arith.ceil_div(n, c))):
                    acc.evaluations += 1
                    got = V.muldiv(V(a, True), V(b, True), V(c, True), round=rnd)
                    if type(got) is not V or got._value != want:
                        acc.violation('C12|fixed|muldiv-%s' % rnd, 'muldiv(%s,%s,%s,%s) p=%d gives %r want %s' % (a, b, c, rnd, p, got, want), case)
            acc.sample({'class': 'Fixed', 'precision': p, 'boundary_operands': [str(b) for b in bs[:8]]})
        elif k == 'rat':
            self.rational(case, acc)
        elif k == 'rat-misc':
            V = arith.init_rational()
            vals = [Fraction(a, b) for a in range(-3, 4) for b in (1, 2, 3)]
            for L in (1, 2, 3):
                for combo in itertools.product(vals, repeat=L):
                    acc.evaluations += 1
                    got = V.min([V(v) for v in combo])
                    if got != min(combo):
                        acc.violation('C12|rational|min', 'min of %s gives %r' % (combo, got), case)
        if acc.cases % 97 == 1:
            acc.sample(case)

    def rational(self, case, acc):
        V = arith.init_rational()
        a, b, N, D = case['a'], case['b'], case['N'], case['D']
        fx = Fraction(a, b)
        x = V(a, b)

        def chk(name, got, want, operands):
            acc.evaluations += 1
            if want != int(want) or want < 0:
                acc.nontrivial_count += 1
            if type(got) is not V:
                acc.violation('C12|rational|type|%s' % name, '%s%r returned %r of type %s' % (name, operands, got, type(got).__name__), case)
            elif Fraction(got) != want:
                acc.violation('C12|rational|%s' % name, '%s%r gives %s, exact %s' % (name, operands, got, want), case)
        for c in range(-N, N + 1):
            for d in range(1, D + 1):
                fy = Fraction(c, d)
                y = V(c, d)
                ops = (fx, fy)
                chk('add', x + y, fx + fy, ops)
                chk('sub', x - y, fx - fy, ops)
                chk('mul', x * y, fx * fy, ops)
                chk('mul-fn', V.mul(x, y, round='down'), fx * fy, ops)
                chk('mul-fn-up', V.mul(x, y, round='up'), fx * fy, ops)
                if c:
                    chk('div', x / y, fx / fy, ops)
                    chk('div-fn', V.div(x, y, round='up'), fx / fy, ops)
                    chk('div-fn-down', V.div(x, y, round='down'), fx / fy, ops)
                for name, got, want in (('eq', x == y, fx == fy), ('ne', x != y, fx != fy), ('lt', x < y, fx < fy),
                                        ('le', x <= y, fx <= fy), ('gt', x > y, fx > fy), ('ge', x >= y, fx >= fy)):
                    acc.evaluations += 1
                    if got is not want:
                        acc.violation('C12|rational|cmp-%s' % name, '%s %s %s gives %r' % (fx, name, fy, got), case)
                if d <= 3:
                    for e in (-5, -2, 1, 3, 7):
                        fz = Fraction(e, d + 1)
                        chk('muldiv', V.muldiv(x, y, V(e, d + 1), round='down'), fx * fy / fz, (fx, fy, fz))
        for k in range(-7, 8):
            chk('mul-int', x * k, fx * k, (fx, k))
            chk('rmul-int', k * x, fx * k, (k, fx))
            chk('add-int', x + k, fx + k, (fx, k))
            chk('radd-int', k + x, fx + k, (k, fx))
            chk('sub-int', x - k, fx - k, (fx, k))
            chk('rsub-int', k - x, k - fx, (k, fx))
            if k:
                chk('div-int', x / k, fx / k, (fx, k))
        chk('neg', -x, -fx, (fx,))
        chk('abs', abs(x), abs(fx), (fx,))
        chk('pos', +x, fx, (fx,))
        acc.evaluations += 1
        if bool(x) is not (a != 0):
            acc.violation('C12|rational|bool', 'bool(%s)' % fx, case)
        if V.exact is not True:
            acc.violation('C12|rational|exact-flag', 'Rational.exact is %r' % V.exact, case)


CHECK = C12()
