"""C05 -- Droop proportionality: a solid coalition with k quotas wins k seats.

For every enumerated profile, EVERY non-empty proper candidate subset S and every k >= 1:
support(S) = sum of multipliers of the ballots whose first |S| entries are exactly the set S (a ballot that ranks only part
of S does not rank 'the same set ... ahead of all others').  If support(S) > k*q0 + allowance (q0 = the rule's own first
recorded quota; allowance = ballots x candidates x 2 units in the last place of the arithmetic) then at least min(k, |S|)
members of S are elected.  The single-seat majority criterion is the instance k = 1, |S| = 1.
"""
import itertools
from fractions import Fraction
from .. import ecase, families, configs, spaces
from ..driver import Check, h64
from . import common


class C05(Check):
    pid = 'C05'
    level = 'exploration'
    rule = ('U(3,<=5) x seats {1,2} x two tie orders x 11 rules + non-integer wigm/meek/warren arithmetic menu entries; 4-candidate W(4,2,3,{1,2,3}) and three-deep W(4,3,3,{1,2}) x seats {1,2,3}; '
            'bullets+pair profiles BP(4,3,1,{3..6}) (a coalition partner next to a pending surplus) for the batch rules '
            '(thorough: U(3,6), U(4,4), W(4,2,4,{1,2,3}), W(5,2,3,{1,2,4}), W(5,3,3,{1,3})); mpls without undeclared candidates. '
            'evaluations = (count, S, k) triples whose premise holds; distinct_nontrivial = those with |S| >= 2 or seats >= 2 (not the plain majority case), counted by hash')
    assumptions = ['bounded election sizes', 'the allowance makes the claim vacuous for multi-seat integer arithmetic (by design of the statement)']
    budget = {'quick': 240, 'thorough': 3000}

    def cases(self, tier):
        menu = [c for c in configs.wigm_menu() if c['arithmetic'] != 'integer' and not c['integer_quota']][::3] + configs.meek_menu()[::5]
        D = configs.DEFAULTS
        q = tier == 'quick'
        yield from families.seats_ties(3, spaces.U(3, 0, 5), seats=(1, 2), cfgs=D)
        yield from families.seats_ties(3, spaces.U(3, 0, 4), seats=(1, 2), ties='id', cfgs=menu)
        yield from families.seats_ties(4, spaces.W(4, 2, 3, (1, 2, 3)), seats=(1, 2, 3), ties='id', cfgs=D + [{'rule': 'wigm', 'defeat_batch': 'zero'}])
        yield from families.seats_ties(4, spaces.W(4, 3, 3, (1, 2)) if q else spaces.W(4, 4, 3, (1, 2, 3)), seats=(2, 3), ties='id',
                                       cfgs=[{'rule': r} for r in configs.FAST5] if q else D)
        batch = [{'rule': 'wigm-prf-batch'}, {'rule': 'cfer-batch'}, {'rule': 'mpls'}, {'rule': 'meek'}]
        yield from families.seats_ties(4, spaces.BP(4, 3, 1, (3, 4, 5, 6)), seats=(1, 2, 3), ties='id', cfgs=batch)
        if not q:
            yield from families.seats_ties(3, spaces.U(3, 6, 6), seats=(1, 2), ties='id', cfgs=D)
            yield from families.seats_ties(4, spaces.U(4, 4, 4), seats=(1, 2, 3), ties='id', cfgs=D)
            yield from families.seats_ties(4, spaces.W(4, 2, 4, (1, 2, 3)), seats=(2, 3), ties='id', cfgs=D)
            yield from families.seats_ties(5, spaces.W(5, 2, 3, (1, 2, 4)), seats=(2, 3), ties='id', cfgs=D)
            yield from families.seats_ties(5, spaces.W(5, 3, 3, (1, 3)), seats=(2, 3), ties='id', cfgs=[{'rule': r} for r in configs.FAST5] + [{'rule': 'meek'}, {'rule': 'qpq'}])
            yield from families.seats_ties(4, spaces.W(4, 3, 3, (1, 3, 5, 8)), seats=(2, 3), ties='id',
                                           cfgs=[{'rule': 'warren'}, {'rule': 'meek'}, {'rule': 'warren', 'arithmetic': 'fixed', 'precision': 6}])

    def check(self, case, acc):
        n, seats = case['n'], case['s']
        ballots = case['b']
        B = ecase.nballots(case)
        # support of every subset
        sup = {}
        for sz in range(1, n):
            for S in itertools.combinations(range(1, n + 1), sz):
                Ss = set(S)
                v = sum(m for m, r in ballots if len(r) >= sz and set(r[:sz]) == Ss)
                if v:
                    sup[S] = v
        for cfg, t, one in common.runs(case, snapshots=False):
            rule = cfg['rule']
            if not t.ok():
                acc.evaluations += 1
                acc.violation('C05|%s|%s' % (rule, common.exc_sig(t)), 'count failed: %r' % t.exc, one)
                continue
            q0 = None
            for A in t.actions:
                if A.get('quota') is not None:
                    q0 = t.unit_value(A['quota'])
                    break
            ulp = Fraction(1, t.scale) if t.kind != 'rational' else 0
            allow = B * n * 2 * ulp
            el = {c.cid for c in t.E.elected}
            any_premise = False
            for S, v in sup.items():
                for k in range(1, seats + 1):
                    if v > k * q0 + allow:
                        acc.evaluations += 1
                        any_premise = True
                        if len(S) >= 2 or seats >= 2:
                            acc.nontrivial.add(h64((n, seats, ballots, case.get('tie'), configs.cfg_key(cfg), S, k)))
                        if len(el & set(S)) < min(k, len(S)):
                            stable = any(A['tag'] == 'log' and A['msg'].startswith('Stable state detected') for A in t.actions)
                            acc.violation('C05|%s|%s' % (rule, 'coalition-after-stable-exit' if stable else 'coalition'),
                                          'coalition %s has %d of %d ballots (> %d x quota %s) but only %d of its candidates are elected (%s): %s'
                                          % (list(S), v, B, k, q0, len(el & set(S)), sorted(el), ecase.short(case, cfg)), one)
                    else:
                        break
            if not any_premise:
                acc.stats['counts_without_any_true_premise'] += 1
            elif acc.evaluations % 50000 < 3:
                acc.sample({'case': ecase.short(case, cfg), 'quota': str(q0), 'elected': sorted(el),
                            'coalitions_with_support': {str(list(S)): v for S, v in list(sup.items())[:5]}})


CHECK = C05()
