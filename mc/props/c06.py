"""C06 -- Gregory transfers: tallies equal ballot values; values only shrink, rounded down.

A ballot-level reference model is stepped alongside every real count of the Gregory-family rules
(wigm + arithmetic menu, wigm-prf(-batch), cfer(-batch), scotland, mpls).  The harness snapshots
(index, weight) of every ballot beside every logged action (ElectionRecord.action wrapped from outside).

Model state: per ballot (position, value).  Checked on every snapshot / step:
 I1  for every candidate c: tally(c) == sum(value*multiplier of ballots standing with c), or c is
     elected-and-transferred with no ballots and tally == quota, or defeated-and-transferred with no ballots
     and tally == 0
 I1b no ballot stands with a candidate whose ballots have been transferred (a logged transfer step after its 'unpend' / exclusion), nor, at
     the start of a later round, with a candidate excluded in an earlier round -- whatever the ballot's value (zero-valued ballots included)
 I2  every ranking entry a ballot has passed over belongs to a candidate who is not continuing (hopeful);
     a ballot that moved in a step came from a candidate transferred in that step and now stands with a
     hopeful candidate (or is exhausted); ballots standing elsewhere are untouched
 I3  surplus transfer of X (tally v, surplus sigma=v-quota at the previous snapshot): every ballot that stood with X
     gets new <= old*sigma/v (never up) and new > old*sigma/v - 2 units (two truncations, whichever of product / quotient /
     surplus fraction the rule truncates first; exactly old*sigma/v under rational);
     afterwards tally(X) == quota.  Exclusion of Y: Y's ballots move on at unchanged value
 I4  0 <= value <= 1 and no value ever increases
"""
from fractions import Fraction
from .. import ecase, families, configs, spaces
from ..driver import Check, h64
from . import common


class C06(Check):
    pid = 'C06'
    level = 'model_checking'
    rule = ('Gregory-family rules on U(3,<=5) x seats x two tie orders, the wigm arithmetic menu on U(3,<=4), 4-candidate weighted profiles '
            'W(4,2,3,{1,2}) and weighted W(3,3,3,{2,3,5}), bullet piles BU(4), the ballot files shipped with the repository (thorough: all of them; W(3,3,3,{1,2,3,5,8}), W(4,2,4,{1,2,3}), W(4,4,3,{1,2,3}), U(3,6..7)); '
            'states = distinct (statuses, tallies, ballot positions+values) snapshots, transitions = distinct consecutive pairs, '
            'traces_validated = real counts stepped to the end in lock-step with the ballot model. non-trivial = counts in which some ballot was re-valued')
    assumptions = ['ballots are observed through Election.ballots[*].index/.weight/.multiplier beside every logged action; '
                   'if those anchors disappear the check exits 2 (cannot observe), not 1',
                   '"stands with the first candidate neither elected-and-transferred nor defeated" is read as standard STV does: a candidate elected with a pending surplus receives no further ballots (mpls has no pending state)']
    budget = {'quick': 240, 'thorough': 3000}

    def cases(self, tier):
        G = [{'rule': r} for r in configs.GREGORY]
        menu = [c for c in configs.wigm_menu() if not c['integer_quota'] or c['arithmetic'] in ('fixed', 'rational')]
        yield from families.seats_ties(2, spaces.U(2, 0, 6), cfgs=G)
        yield from families.seats_ties(3, spaces.U(3, 0, 4), cfgs=G)
        yield from families.seats_ties(3, spaces.U(3, 0, 4), ties='id', cfgs=menu)
        d0 = [{'rule': 'wigm', 'arithmetic': 'fixed', 'precision': 4, 'display': 0}, {'rule': 'wigm', 'arithmetic': 'guarded', 'precision': 6, 'guard': 3, 'display': 0}]
        yield from families.seats_ties(4, spaces.W(4, 2, 3, (1, 2)), seats=(2, 3), ties='id', cfgs=G + menu[::5] + d0)     # d0: every value prints alike
        yield from families.withdrawn_family(3, spaces.U(3, 0, 4), G[:3] + G[5:], seats=(1, 2))
        yield from families.undeclared_family(3, spaces.U(3, 0, 4), [{'rule': 'mpls'}], seats=(1, 2))
        yield from families.seats_ties(3, spaces.U(3, 5, 5), ties='id' if tier == 'quick' else 'idrev', cfgs=G)
        yield from families.seats_ties(3, spaces.W(3, 3, 3, (2, 3, 5) if tier == 'quick' else (1, 2, 3, 5, 8)), seats=(1, 2), ties='id',
                                       cfgs=G + (menu[::4] if tier == 'quick' else menu))
        yield from families.seats_ties(4, spaces.BU(4), seats=(1, 2, 3), ties='id', cfgs=G)
        yield from families.repo_files(G, max_bytes=4000 if tier == 'quick' else 10 ** 7)
        yield from families.corner_corpus(G)
        yield from families.seats_ties(3, spaces.HUGE(3), seats=(1, 2), ties='id', cfgs=G)     # piles of ~10^5 ballots: zero-truncating and unit-sized surpluses
        if tier == 'thorough':
            yield from families.seats_ties(4, spaces.W(4, 2, 4, (1, 2, 3)), seats=(2, 3), ties='id', cfgs=G + menu[::6])
            yield from families.seats_ties(3, spaces.U(3, 6, 6), cfgs=G)
            yield from families.seats_ties(4, spaces.W(4, 4, 3, (1, 2, 3)), seats=(2, 3), ties='id', cfgs=G)
            yield from families.seats_ties(5, spaces.W(5, 2, 3, (1, 2, 4)), seats=(2, 3), ties='id', cfgs=G)
            yield from families.seats_ties(3, spaces.U(3, 7, 7), ties='id', cfgs=G)

    def check(self, case, acc):
        for cfg, t, one in common.runs(case, snapshots=True):
            acc.evaluations += 1
            rule = cfg['rule']
            if t.E is None or t.kind is None:
                acc.violation('C06|%s|%s' % (rule, common.exc_sig(t)), 'no election: %r' % t.exc, one)
                continue
            E = t.E
            if not all(hasattr(b, 'index') and hasattr(b, 'weight') and hasattr(b, 'multiplier') for b in E.ballots[:1]):
                raise RuntimeError('cannot observe ballots (Election.ballots[*].index/.weight/.multiplier missing)')
            scale = t.scale
            exact = t.kind == 'rational'
            rankings = [list(b.ranking) for b in E.ballots]
            mults = [int(t.unit_value(b.multiplier)) for b in E.ballots]
            nb = len(rankings)
            reweights = [0] * nb
            awaiting = set()        # candidates whose transfer has been announced in this round (unpend / defeat / mpls elect)
            transferred = set()     # candidates whose ballots have been moved on by a logged transfer step
            names = common.names_of(t)
            zero_trunc = set()
            bad = False
            prev = None
            prevkey = None

            def viol(kind, msg, s):
                nonlocal bad
                bad = True
                acc.violation('C06|%s|%s' % (rule, kind), '%s at action %d (%s: %s) of %s'
                              % (msg, s.i, s.tag, s.msg, ecase.short(case, cfg)), one)

            for s in common.steps(t):
                bl = s.ballots
                # I4 range
                for k, (ix, w) in enumerate(bl):
                    if w < 0 or w > scale:
                        viol('value-range', 'ballot %d has value %s outside [0,1]' % (k, w), s)
                # which candidates have been transferred so far (the transfer of a round's exclusions / surpluses is logged in that round)
                if s.tag == 'round':
                    awaiting = set()
                elif s.tag == 'unpend' or (s.tag == 'defeat' and 'remaining' not in s.msg) or (rule == 'mpls' and s.tag == 'elect' and s.msg.startswith('Elect: ')):
                    cid = common.named(s.A, names)
                    if cid is not None:
                        awaiting.add(cid)
                elif s.tag == 'transfer':
                    # 'Transfer defeated: A, B' / 'Surplus transferred: X (amount)' / 'Transfer surplus: X (amount)' name whose ballots moved
                    part = s.msg.split(': ', 1)[1] if ': ' in s.msg else ''
                    if part.endswith(')') and ' (' in part:
                        part = part[:part.rindex(' (')]
                    byname = {v: k for k, v in names.items()}
                    moved_now = {byname[x] for x in part.split(', ') if x in byname}
                    if not moved_now:
                        moved_now = set(awaiting)
                    transferred |= (moved_now & awaiting)
                    awaiting -= moved_now
                # I1 tallies == standing ballots
                stand = {}
                nstand = {}
                for k, (ix, w) in enumerate(bl):
                    if ix < len(rankings[k]):
                        c = rankings[k][ix]
                        stand[c] = stand.get(c, 0) + w * mults[k]
                        nstand[c] = nstand.get(c, 0) + 1
                    # I2a passed-over entries are not continuing
                    for pos in range(min(ix, len(rankings[k]))):
                        if s.st[rankings[k][pos]] == 'hopeful':
                            viol('skipped-continuing', 'ballot %d %s stands at position %d but passed over continuing candidate %s'
                                 % (k, rankings[k], ix, rankings[k][pos]), s)
                            break
                for c in transferred:
                    if nstand.get(c):
                        viol('stands-with-transferred', '%d ballot line(s) still stand with candidate %s (%s) whose ballots were transferred' % (nstand[c], c, s.st[c]), s)
                        break
                if s.tag == 'round':
                    # a candidate excluded in an earlier round has had its ballots moved on in that round
                    for c, x in s.st.items():
                        if x == 'defeated' and nstand.get(c):
                            viol('stands-with-defeated', '%d ballot line(s) still stand with candidate %s, excluded in an earlier round' % (nstand[c], c), s)
                            break
                for c, v in s.vote.items():
                    sc = stand.get(c, 0)
                    if sc == v:
                        continue
                    if sc == 0 and s.st[c] == 'elected' and v == s.q:
                        continue
                    if sc == 0 and s.st[c] == 'defeated' and v == 0:
                        continue
                    viol('tally-vs-ballots', 'candidate %s (%s) has tally %s but its ballots are worth %s' % (c, s.st[c], v, sc), s)
                # steps
                if prev is not None:
                    pb = prev.ballots
                    moved = [k for k in range(nb) if bl[k][0] != pb[k][0]]
                    origins = set()
                    for k in range(nb):
                        if bl[k][1] > pb[k][1]:
                            viol('value-increased', 'ballot %d value rose from %s to %s' % (k, pb[k][1], bl[k][1]), s)
                    for k in moved:
                        if bl[k][0] < pb[k][0]:
                            viol('moved-back', 'ballot %d moved backwards' % k, s)
                            continue
                        origins.add(rankings[k][pb[k][0]])
                        ix = bl[k][0]
                        if ix < len(rankings[k]) and s.st[rankings[k][ix]] != 'hopeful':
                            viol('moved-to-noncontinuing', 'ballot %d moved to %s who is %s'
                                 % (k, rankings[k][ix], s.st[rankings[k][ix]]), s)
                    for k in range(nb):
                        pix = pb[k][0]
                        stood = rankings[k][pix] if pix < len(rankings[k]) else None
                        if stood in origins:
                            if k not in moved:
                                viol('left-behind', 'ballot %d stayed with transferred candidate %s' % (k, stood), s)
                        elif bl[k] != pb[k]:
                            viol('bystander-touched', 'ballot %d (standing with %s, not transferred) changed %s -> %s'
                                 % (k, stood, pb[k], bl[k]), s)
                    for x in origins:
                        if s.st[x] == 'defeated':
                            for k in moved:
                                if rankings[k][pb[k][0]] == x and bl[k][1] != pb[k][1]:
                                    viol('exclusion-revalued', 'ballot %d of excluded %s changed value %s -> %s'
                                         % (k, x, pb[k][1], bl[k][1]), s)
                        elif s.st[x] in ('elected', 'pending'):
                            v = prev.vote[x]
                            sigma = v - prev.q
                            if s.vote[x] != s.q:
                                viol('elected-keeps-quota', 'transferred candidate %s keeps %s, quota is %s' % (x, s.vote[x], s.q), s)
                            for k in moved:
                                if rankings[k][pb[k][0]] != x:
                                    continue
                                old, new = pb[k][1], bl[k][1]
                                ideal = Fraction(old * sigma, v) if v else Fraction(0)
                                if exact:
                                    if new != ideal:
                                        viol('transfer-value', 'ballot %d new value %s, exact old*surplus/tally is %s' % (k, new, ideal), s)
                                elif new > ideal:
                                    viol('transfer-value-up', 'ballot %d new value %s units exceeds old*surplus/tally = %s units (old %s, surplus %s, tally %s)'
                                         % (k, new, float(ideal), old, sigma, v), s)
                                elif ideal - new >= 2:
                                    viol('transfer-value-low', 'ballot %d new value %s units is more than the two truncations below old*surplus/tally = %s'
                                         % (k, new, float(ideal)), s)
                                if new < old:
                                    reweights[k] += 1
                                    if new == 0 and sigma > 0:
                                        zero_trunc.add(rule)
                        else:
                            viol('moved-from-continuing', 'ballots moved away from %s who is %s' % (x, s.st[x]), s)
                key = h64((tuple(sorted(s.st.items())), tuple(sorted(s.vote.items())), bl))
                acc.states.add(key)
                if prevkey is not None and prevkey != key:
                    acc.transitions.add(h64((prevkey, key)))
                prevkey = key
                prev = s
            if not bad and t.ok():
                acc.traces_validated += 1
            for r in zero_trunc:
                acc.stats['counts_with_value_truncated_to_zero_by_positive_surplus|%s' % r] += 1
            mx = max(reweights) if reweights else 0
            if mx:
                acc.nontrivial.add(h64((case['n'], case['s'], case['b'], case.get('tie'), case.get('wd'), case.get('ud'), configs.cfg_key(cfg))))
                acc.stats['counts_with_a_revalued_ballot'] += 1
                if mx >= 2:
                    acc.stats['counts_with_a_ballot_revalued_2+_times'] += 1
                if mx >= 3:
                    acc.stats['counts_with_a_ballot_revalued_3+_times'] += 1
                if acc.stats['counts_with_a_revalued_ballot'] % 40000 == 1:
                    acc.sample({'case': ecase.short(case, cfg), 'unit': '1/%s' % scale,
                                'final_ballots(position,value_units)': [list(map(str, b)) for b in prev.ballots]})


CHECK = C06()
