"""C15 -- a well-formed ballot file is read as exactly the election it denotes.

Model = a printer: election structure -> BLT text in many renderings; the real parser must be its left inverse.
Two completely enumerated products of small menus:
  semantic product   n in {1,2,3} x seats x every withdrawn subset (written as -n tokens, as one [withdrawn ...] option, or mixed: -n plus one option per further candidate) x undeclared
                     in {none, last} x ballot sets (every 1- and 2-line combination over strict rankings, weak rankings 'a=b',
                     ballots ranking only withdrawn candidates, empty ballots; a few 3-line sets) x multiplier patterns {1,2,7}
                     x ballot-id styles {none, '(b1)', '( b 1 )'}
  presentation product  names {plain, with spaces, with # /* */ inside quotes, UTF-8, apostrophe} x title/source/comment menus x
                     [tie] {none, reversed, rotated} x [nick] {none, nicknames used in ballots/tie/withdrawn, decimal nicknames with numeric references} x [droop ...] options {none, one group, one group per option} x
                     layouts {line per ballot, token per line, one line, CRLF, tabs, blank lines, bare CR / form feed / NEL as line ends} x comments {none, '#' at line ends,
                     /* */ between tokens, nested, '#' inside a block comment, a quoted word inside a comment} x trailing junk after the last string x BOM (through a file)
  boundary           n in {255, 256, 257} with a ballot ranking candidate n (array typecode switch)
Oracle: every public attribute of ElectionProfile equals the structure (candidate count, seats, names, title, source, comment, tie order,
nicknames, withdrawn / undeclared / eligible sets, every kept ballot's multiplier and ranking with withdrawn candidates removed and emptied
ballots dropped, nBallots = sum of kept multipliers); a structure with more seats than eligible candidates or fewer kept ballots than
eligible candidates must be rejected with ElectionProfileError, and no accepted profile violates the validity invariants.
"""
import itertools
import os
import tempfile
from .. import spaces, repo
from ..repo import ElectionProfile, ElectionProfileError
from ..driver import Check, h64

NAMESETS = [['A', 'B', 'C'], ['Ann Lee', 'Bob', 'C D E'], ['#1 x', 'y /* z', 'w */ v #'], ['Zoë', '李 四', 'Ωmega'], ["O'Neil", "d'Arc", "it's"]]
TITLES = ['T', 'My Election 2024', 'Poll #3 /* final */']
EXTRAS = [(None, None), ('the source', None), ('src # 1', 'a /* comment */ text')]


def ballot_menu(n):
    ids = range(1, n + 1)
    out = [tuple(r) for r in spaces.rankings(n)]
    for w in spaces.weak_rankings(n):
        if any(len(g) > 1 for g in w):
            out.append(tuple(g if len(g) > 1 else g[0] for g in w))
    return out


def expected(st):
    "what the profile must contain"
    n = st['n']
    wd = set(st['wd'])
    kept = []
    kept_eq = []
    total = 0
    for m, r in st['ballots']:
        rr = []
        for x in r:
            grp = [c for c in (x if isinstance(x, tuple) else (x,)) if c not in wd]
            if grp:
                rr.append(grp)
        if not rr:
            continue
        total += m
        if any(len(g) > 1 for g in rr):
            kept_eq.append((m, tuple(tuple(g) for g in rr)))
        else:
            kept.append((m, [g[0] for g in rr]))
    names = st['names']
    tie = st.get('tie')
    nick = st.get('nick')
    return {
        'nCand': n, 'nSeats': st['s'], 'title': st['title'], 'source': st.get('source'), 'comment': st.get('comment'),
        'eligible': set(range(1, n + 1)) - wd, 'withdrawn': wd, 'undeclared': set(st.get('ud') or ()),
        'candidateName': {i: names[i - 1] for i in range(1, n + 1)}, 'candidateOrder': {i: i for i in range(1, n + 1)},
        'tieOrder': {c: i + 1 for i, c in enumerate(tie)} if tie else {i: i for i in range(1, n + 1)},
        'nickName': {i: nick[i - 1] for i in range(1, n + 1)} if nick else {i: str(i) for i in range(1, n + 1)},
        'options': list(st.get('droop') or []),
        'ballotLines': kept, 'ballotLinesEqual': kept_eq, 'nBallots': total,
        'valid': st['s'] >= 1 and st['s'] <= n - len(wd) and total >= n - len(wd),
    }


def actual(p):
    return {
        'nCand': p.nCand, 'nSeats': p.nSeats, 'title': p.title, 'source': p.source, 'comment': p.comment,
        'eligible': set(p.eligible), 'withdrawn': set(p.withdrawn), 'undeclared': set(p.undeclared),
        'candidateName': dict(p.candidateName), 'candidateOrder': dict(p.candidateOrder), 'tieOrder': dict(p.tieOrder),
        'nickName': dict(p.nickName), 'options': list(p.options),
        'ballotLines': [(b.multiplier, list(b.ranking)) for b in p.ballotLines],
        'ballotLinesEqual': [(b.multiplier, tuple(tuple(g) for g in b.ranking)) for b in p.ballotLinesEqual],
        'nBallots': p.nBallots,
    }


def lines_of(st, wd_style='minus', id_style=None, use_nick=False):
    "the file as a list of token lines"
    n = st['n']
    nick = st.get('nick')
    ref = (lambda c: nick[c - 1]) if (nick and use_nick) else str
    L = [[str(n), str(st['s'])]]
    if nick:
        L.append(['[nick'] + list(nick[:-1]) + [nick[-1] + ']'])
    if st.get('tie'):
        t = st['tie']
        L.append(['[tie'] + [ref(c) for c in t[:-1]] + [ref(t[-1]) + ']'])
    if st['wd']:
        if wd_style == 'minus':
            L[0] += ['-%d' % c for c in st['wd']]
        elif wd_style == 'mixed':       # the first by -n, the others one [withdrawn x] option each
            w = st['wd']
            L[0] += ['-%d' % w[0]]
            for c in w[1:]:
                L.append(['[withdrawn', ref(c) + ']'])
        else:
            w = st['wd']
            L.append(['[withdrawn'] + [ref(c) for c in w[:-1]] + [ref(w[-1]) + ']'])
    if st.get('ud'):
        u = st['ud']
        L.append(['[undeclared'] + [ref(c) for c in u[:-1]] + [ref(u[-1]) + ']'])
    if st.get('droop'):
        groups = [[x] for x in st['droop']] if st.get('droop_split') else [st['droop']]
        for d in groups:
            L.append(['[droop'] + list(d[:-1]) + [d[-1] + ']'])
    for i, (m, r) in enumerate(st['ballots']):
        if id_style == 'tight':
            head = ['(b%d)' % i]
        elif id_style == 'loose':
            head = ['(', 'b', '%d' % i, ')']
        else:
            head = [str(m)]
        L.append(head + ['='.join(ref(c) for c in x) if isinstance(x, tuple) else ref(x) for x in r] + ['0'])
    L.append(['0'])
    for nm in st['names']:
        L.append(['"%s"' % nm])
    L.append(['"%s"' % st['title']])
    if st.get('source') is not None:
        L.append(['"%s"' % st['source']])
    if st.get('comment') is not None:
        L.append(['"%s"' % st['comment']])
    return L


def layouts(L):
    flat = [t for l in L for t in l]
    yield 'lines', '\n'.join(' '.join(l) for l in L) + '\n'
    yield 'token-per-line', '\n'.join(flat) + '\n'
    yield 'one-line', ' '.join(flat)
    yield 'crlf', '\r\n'.join(' '.join(l) for l in L) + '\r\n'
    yield 'tabs', '\n'.join('\t'.join(l) for l in L) + '\n'
    yield 'blank-lines', '\n\n  \n'.join('  '.join(l) for l in L) + '\n\n'
    # every line boundary str.splitlines() knows ends a line (and a '#' comment): bare CR, form feed, NEL, LINE SEPARATOR
    yield 'cr-only', '\r'.join(' '.join(l) for l in L) + '\r'
    yield 'form-feed', '\x0c'.join(' '.join(l) for l in L) + '\n'
    yield 'nel', '\x85'.join(' '.join(l) for l in L) + '\u2028'


def commented(L):
    "comment renderings that keep quoted strings intact (comments never inside a quoted token sequence)"
    def safe(l):
        return not any(t.startswith('"') or t.endswith('"') for t in l)
    yield 'none', L
    yield 'hash', [l + ['#', 'note', '%d' % i, '/*'] if not (l and l[0].startswith('"') and not l[-1].endswith('"')) else l for i, l in enumerate(L)]
    yield 'block', [['/*', 'c%d' % i, '*/'] + l for i, l in enumerate(L)]
    yield 'block-tight', [['/*c%d*/' % i] + l for i, l in enumerate(L)]
    yield 'nested', [l + ['/* outer /* inner */ still */'] for l in L]
    yield 'hash-in-block', [l + ['/* box #1 */'] for l in L]
    yield 'quote-in-block', [l + ['/* listed as "Robert" on the paper */'] for l in L]
    yield 'quote-in-hash', [(l + ['#', 'aka', '"Bob"']) if not (l and l[0].startswith('"') and not l[-1].endswith('"')) else l for l in L]
    yield 'multiline', [['/*', 'a'], ['b', '*/']] + L + [['#', 'end']]
    yield 'junk-after', L + [['junk', '42', 'more']]


class C15(Check):
    pid = 'C15'
    level = 'exploration'
    rule = ('complete enumeration of the semantic product and of the presentation product described in the module docstring (+ the 255/256/257-candidate boundary files); '
            'each text is parsed by the real ElectionProfile and every public attribute compared with the structure it was printed from; '
            'distinct_nontrivial = distinct texts that use at least one non-default feature (withdrawn, undeclared, weak ranking, dropped ballot, ids, options, comments, non-plain names/layout)')
    assumptions = ['structures are bounded (<= 3 candidates except the boundary files, <= 3 ballot lines)', 'numeric-looking nicknames are ambiguous with ids by construction of getCid and are left to C16']
    budget = {'quick': 240, 'thorough': 3000}

    def cases(self, tier):
        q = tier == 'quick'
        # ---- semantic product
        for n in (1, 2, 3):
            menu = ballot_menu(n)
            sets = [(b,) for b in menu] + list(itertools.combinations(menu, 2))
            if n == 3:
                sets = [(b,) for b in menu] + (list(itertools.combinations(menu[::2], 2)) if q else list(itertools.combinations(menu, 2)))
                sets += [(menu[0], menu[7], menu[-1]), (menu[3], menu[-2], menu[5])]
            for bs in sets:
                yield {'k': 'sem', 'n': n, 'bs': [list(map(lambda x: list(x) if isinstance(x, tuple) else x, b)) for b in bs]}
        # ---- presentation product
        for ni, ti, ei in itertools.product(range(len(NAMESETS)), range(len(TITLES)), range(len(EXTRAS))):
            yield {'k': 'pres', 'names': ni, 'title': ti, 'extra': ei}
        for n in (255, 256, 257):
            yield {'k': 'big', 'n': n}

    # ------------------------------------------------------------------
    def parse_and_compare(self, st, text, acc, case, tag, via_file=False):
        acc.evaluations += 1
        exp = expected(st)
        try:
            if via_file:
                fd, path = tempfile.mkstemp(suffix='.blt')
                try:
                    with os.fdopen(fd, 'wb') as f:
                        f.write(b'\xef\xbb\xbf' + text.encode('utf-8'))
                    p = ElectionProfile(path=path)
                finally:
                    os.unlink(path)
            else:
                p = ElectionProfile(data=text)
        except ElectionProfileError as e:
            if exp['valid']:
                acc.violation('C15|rejected|%s' % tag, 'well-formed file rejected (%s):\n%s' % (e, text), dict(case, text=text))
            return
        except Exception as e:     # pylint: disable=broad-except
            acc.violation('C15|crash|%s|%s' % (type(e).__name__, tag), 'parser raised %r on a well-formed file:\n%s' % (e, text), dict(case, text=text))
            return
        if not exp['valid']:
            acc.violation('C15|accepted-invalid|%s' % tag, 'a file with more seats than eligible candidates or fewer ballots than eligible candidates was accepted:\n%s' % text,
                          dict(case, text=text))
            return
        act = actual(p)
        for k, v in act.items():
            if exp[k] != v:
                acc.violation('C15|attribute|%s|%s' % (k, tag), 'profile.%s is %r, the file denotes %r:\n%s' % (k, v, exp[k], text), dict(case, text=text))
                break
        # validity invariants of an accepted profile
        seen_bad = False
        for m, r in act['ballotLines']:
            if len(set(r)) != len(r) or any(c in act['withdrawn'] or not 1 <= c <= act['nCand'] for c in r):
                seen_bad = True
        for m, r in act['ballotLinesEqual']:
            flat = [c for g in r for c in g]
            if len(set(flat)) != len(flat) or any(c in act['withdrawn'] or not 1 <= c <= act['nCand'] for c in flat):
                seen_bad = True
        if seen_bad or act['nSeats'] > len(act['eligible']) or act['nBallots'] < len(act['eligible']):
            acc.violation('C15|invariant|%s' % tag, 'accepted profile violates a validity invariant:\n%s' % text, dict(case, text=text))

    def check(self, case, acc):
        if 'text' in case:      # replay of one recorded text
            return self.replay_text(case, acc)
        k = case['k']
        if k == 'sem':
            n = case['n']
            bs = [tuple(tuple(x) if isinstance(x, list) else x for x in b) for b in case['bs']]
            names = NAMESETS[0][:n]
            for s in range(1, n + 1):
                for wd in spaces.subsets(range(1, n + 1), 0, n):
                    for ud in ((), (n,)):
                        for mi, mults in enumerate(((1, 1, 1), (2, 7, 1), (7, 1, 2))):
                            # add the special ballots: one ranking only withdrawn candidates (if any), one empty
                            ballots = [(mults[i], b) for i, b in enumerate(bs)]
                            variants = [ballots]
                            if wd:
                                variants.append(ballots + [(2, tuple(wd))])
                            variants.append([(3, ())] + ballots)
                            for vi, bl in enumerate(variants):
                                for wd_style in ((('minus', 'option', 'mixed') if len(wd) > 1 else ('minus', 'option')) if wd else ('minus',)):
                                    for id_style in (None, 'tight', 'loose'):
                                        if id_style and mi:
                                            continue
                                        st = {'n': n, 's': s, 'wd': list(wd), 'ud': list(ud), 'names': names, 'title': 'T',
                                              'ballots': [(1 if id_style else m, b) for m, b in bl]}
                                        text = '\n'.join(' '.join(l) for l in lines_of(st, wd_style, id_style)) + '\n'
                                        self.parse_and_compare(st, text, acc, case, 'sem')
                                        if wd or ud or id_style or vi or any(isinstance(x, tuple) for b in bs for x in b):
                                            acc.nontrivial_count += 1
            if acc.cases % 200 == 1:
                acc.sample({'k': 'sem', 'example_text': text})
        elif k == 'pres':
            names3 = NAMESETS[case['names']]
            title = TITLES[case['title']]
            src, com = EXTRAS[case['extra']]
            for n in (2, 3):
                for tie in (None, tuple(range(n, 0, -1)), tuple(range(2, n + 1)) + (1,)):
                    for nick in (None, ['na', 'nb', 'nc'][:n], (['2', '3', '1'] if n == 3 else ['2', '1'])):     # decimal nicknames: numbers still mean candidate numbers
                        for droop, dsplit in ((None, False), (['meek', 'precision=5', 'bogus'], False), (['meek', 'precision=5', 'bogus'], True)):
                            for wd in ((), (n,)):
                                st = {'n': n, 's': 1, 'wd': list(wd), 'ud': [], 'names': names3[:n], 'title': title, 'source': src, 'comment': com,
                                      'tie': tie, 'nick': nick, 'droop': droop, 'droop_split': dsplit,
                                      'ballots': [(2, tuple(range(1, n + 1))), (1, (2, 1)), (7, ((1, 2),) if n == 2 else ((1, 3), 2)), (1, (n,))]}
                                for use_nick in ((False, True) if (nick and not nick[0].isdigit()) else (False,)):
                                    for wd_style in (('minus', 'option') if wd else ('minus',)):
                                        L = lines_of(st, wd_style, None, use_nick)
                                        for cname, LC in commented(L):
                                            for lname, text in layouts(LC):
                                                if cname in ('hash', 'quote-in-hash', 'multiline', 'junk-after') and lname == 'one-line':
                                                    continue    # a '#' comment needs a line end; not the same file on one line
                                                if cname in ('hash', 'quote-in-hash', 'multiline') and lname == 'token-per-line':
                                                    continue    # '#' comments its own line only
                                                self.parse_and_compare(st, text, acc, case, 'pres')
                                                acc.nontrivial_count += 1
                                        self.parse_and_compare(st, '\n'.join(' '.join(l) for l in L) + '\n', acc, case, 'bom-file', via_file=True)
            acc.sample({'k': 'pres', 'example_text': text})
        else:
            n = case['n']
            st = {'n': n, 's': 2, 'wd': [], 'ud': [], 'names': ['N%d' % i for i in range(1, n + 1)], 'title': 'big',
                  'ballots': [(n, (n, 1)), (1, (1, n - 1, n)), (2, ((n, 2), 3))]}
            text = '\n'.join(' '.join(l) for l in lines_of(st)) + '\n'
            self.parse_and_compare(st, text, acc, case, 'many-candidates')
            acc.nontrivial_count += 1

    def replay_text(self, case, acc):
        "re-parse a recorded text; the structure is not stored, so only crash / reject outcomes are re-judged by re-running the generator case"
        c = {k: v for k, v in case.items() if k != 'text'}
        self.check(c, acc)


CHECK = C15()
