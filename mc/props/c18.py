"""C18 -- the record is a faithful audit trail and all renderings agree with it.

Audit automaton replayed over the snapshots of every enumerated real count:
  * the first non-log action is 'begin' (mpls: 'round' 1 then 'count') with every candidate hopeful or withdrawn,
    the last is 'end'; the end snapshot's elected/defeated sets equal Election.elected/.defeated
  * every 'elect'/'defeat' action names exactly one candidate, whose (state, pending) pair differs from the previous
    snapshot, and no other candidate's status differs
  * every other action shows no hopeful->elected / hopeful->defeated change (pending winners are finalised silently by
    design; qpq's restart un-election, C09's explicit carve-out, is tolerated in the snapshot after the restart round)
Renderings, re-derived independently from the record + str() of its values:
  * json.loads(E.json()) equals the record with every number replaced by its printed form
  * every dump row has the header's column count (message rows 'round'/'log'/'iterate' have exactly R, tag, msg);
    round / tag / quota / per-candidate name, state code, tally (kf, quotient) equal the action's
  * the report's header (seats, ballots, quota) and each 'Action:' block agree with the action: the block's
    Elected/Pending/Hopeful/Defeated lines list exactly the candidates in those states with str(tally), and the
    rule's totals lines (votes by status, non-transferable, residual, total, surplus, quota) equal sums recomputed
    from the action
  * rendering twice gives the same text (renderings are functions of the record)
"""
import json
from fractions import Fraction
from .. import ecase, families, configs, spaces, trace, repo
from ..driver import Check, h64
from . import common

VALUE_TYPES = (repo.Fixed, repo.Guarded, repo.Rational)


def expected_json(x):
    "the record as JSON must show it: numbers as str(), int keys as strings, tuples as lists"
    if isinstance(x, VALUE_TYPES):
        return str(x)
    if isinstance(x, Fraction):
        return str(repo.Rational(x))
    if isinstance(x, dict):
        return {str(k) if not isinstance(k, bool) else str(k).lower(): expected_json(v) for k, v in x.items()}
    if isinstance(x, (list, tuple)):
        return [expected_json(v) for v in x]
    return x


def base(x):
    return 'elected' if x == 'pending' else x


class C18(Check):
    pid = 'C18'
    level = 'model_checking'
    rule = ('quick: U(3,<=3) x seats x two tie orders x 11 rules and the full wigm/meek/warren option menus, every withdrawn subset, U(3,4) x 11 rules + a menu slice, every undeclared subset under mpls on U(3,<=4), '
            'W(4,2,3,{1,2}) (4 candidates; qpq restarts) (thorough: all of U(3,<=4) under the menus, U(3,5), U(3,6), weighted 3-, 4- and 5-candidate spaces); the audit automaton is stepped over every '
            'snapshot and report, dump and JSON are produced and compared with the record for every count. states = distinct (status vector) audit states, '
            'transitions = distinct (status vector, tag, named candidate, next status vector); traces_validated = counts whose whole record and all three renderings passed. '
            'non-trivial = counts with a transfer / non-epilogue exclusion / more than one round')
    assumptions = ['bounded election sizes', 'report text is parsed by its line labels ("Action:", "\\tElected:", "\\tHopeful votes:" ...): a wording change of the labels would need the parser updated',
                   '"status" for "names a candidate whose status changes" includes the pending flag; for "every status change is listed" only hopeful->elected/defeated (pending winners are finalised silently by design)']
    budget = {'quick': 240, 'thorough': 3000}

    def cases(self, tier):
        D = configs.DEFAULTS
        menus = configs.wigm_menu() + configs.meek_menu()
        q = tier == 'quick'
        yield from families.seats_ties(2, spaces.U(2, 0, 5), cfgs=D)
        yield from families.seats_ties(3, spaces.U(3, 0, 3 if q else 4), cfgs=D)
        yield from families.seats_ties(3, spaces.U(3, 0, 3 if q else 4), ties='id', cfgs=menus)
        yield from families.withdrawn_family(3, spaces.U(3, 0, 3 if q else 4), D, seats=(1, 2))
        yield from families.undeclared_family(3, spaces.U(3, 0, 4), [{'rule': 'mpls'}])
        yield from families.seats_ties(3, spaces.U(3, 4, 4), ties='id', cfgs=D + menus[::7])
        yield from families.seats_ties(4, spaces.W(4, 2, 3, (1, 2)), seats=(2, 3), ties='id', cfgs=D if not q else D[4:])
        coarse = [{'rule': 'meek', 'arithmetic': 'guarded', 'precision': 2}, {'rule': 'warren', 'arithmetic': 'guarded', 'precision': 3},
                  {'rule': 'meek', 'arithmetic': 'guarded', 'precision': 1}]
        yield from families.repo_files(D[::2] + coarse, max_bytes=4000 if q else 10 ** 7)    # real ballot files, also under far too coarse arithmetic
        if tier == 'thorough':
            yield from families.seats_ties(3, spaces.U(3, 5, 5), ties='id', cfgs=D)
            yield from families.seats_ties(3, spaces.W(3, 3, 3, (1, 2, 3, 5, 8)), seats=(1, 2), ties='id', cfgs=D)
            yield from families.seats_ties(4, spaces.W(4, 2, 4, (1, 2, 3)), seats=(1, 2, 3), ties='id', cfgs=D)
            yield from families.undeclared_family(4, spaces.W(4, 2, 3, (1, 2)), [{'rule': 'mpls'}], seats=(1, 2, 3))
            yield from families.seats_ties(3, spaces.U(3, 6, 6), ties='id', cfgs=D)
            yield from families.seats_ties(5, spaces.W(5, 2, 3, (1, 2, 4)), seats=(2, 3), ties='id', cfgs=D)

    # ------------------------------------------------------------------ audit automaton
    def audit(self, t, rule, viol, acc):
        names = common.names_of(t)
        sts = common.steps(t)
        if not sts:
            return
        tags = [s.tag for s in sts]
        if rule == 'mpls':
            if tags[:2] != ['round', 'count'] or sts[0].round != 1:
                viol('begin', 'record starts with %s' % tags[:2], sts[0])
        elif tags[0] != 'begin':
            viol('begin', 'first action is %s' % tags[0], sts[0])
        if any(x not in ('hopeful', 'withdrawn') for x in sts[0].st.values()):
            viol('begin', 'a candidate is already decided at the first action', sts[0])
        if t.ok():
            if tags[-1] != 'end' or t.actions[-1]['tag'] != 'end':
                viol('end', 'last action is %s' % tags[-1], sts[-1])
            el = {c.cid for c in t.E.elected}
            de = {c.cid for c in t.E.defeated}
            fin = sts[-1].st
            if {c for c, x in fin.items() if base(x) == 'elected'} != el or {c for c, x in fin.items() if x == 'defeated'} != de:
                viol('end-sets', 'final snapshot disagrees with Election.elected/.defeated', sts[-1])
            if tags.count('end') != 1 or tags.count('begin') > 1:
                viol('end', 'begin/end appear more than once', sts[-1])
        prev = None
        after_excl = False
        window = False
        for s in sts:
            vec = tuple(s.st[c] for c in sorted(s.st))
            acc.states.add(h64(vec))
            if prev is not None:
                pst = prev.st
                if rule == 'qpq' and window:
                    # restart after an exclusion: droop logs the new round, then silently un-elects everybody
                    # (C09's carve-out); the effective previous status of an elected candidate is hopeful
                    pst = {c: ('hopeful' if x == 'elected' else x) for c, x in pst.items()}
                pvec = tuple(pst[c] for c in sorted(pst))
                changed_full = [c for c in s.st if s.st[c] != pst[c]]
                changed = [c for c in s.st if base(s.st[c]) != base(pst[c])]
                if s.tag in ('elect', 'defeat'):
                    cids = [c for c, nm in names.items() if s.msg.endswith(': ' + nm)]
                    if len(cids) != 1:
                        viol('names-nobody', 'action names %d candidates' % len(cids), s)
                    else:
                        cid = cids[0]
                        if cid not in changed_full:
                            viol('named-not-changed', 'names candidate %s whose status did not change (%s)' % (cid, s.st[cid]), s)
                        want = 'elected' if s.tag == 'elect' else 'defeated'
                        if base(s.st[cid]) != want:
                            viol('named-wrong-status', 'names candidate %s who is %s' % (cid, s.st[cid]), s)
                        others = [c for c in changed if c != cid]
                        if others:
                            viol('unlisted-change', 'status of %s changed too' % others, s)
                    acc.transitions.add(h64((pvec, s.tag, cids[0] if cids else None, vec)))
                else:
                    ch = [c for c in changed]
                    if ch:
                        viol('unlisted-change', 'status of %s changed at a %s action' % (ch, s.tag), s)
                    if pvec != vec:
                        acc.transitions.add(h64((pvec, s.tag, None, vec)))
            window = False
            if s.tag == 'defeat':
                after_excl = True
            elif s.tag == 'round':
                window = after_excl
                after_excl = False
            prev = s

    # ------------------------------------------------------------------ renderings
    def render_json(self, t, viol0):
        try:
            got = json.loads(t.E.json())
        except Exception as e:     # pylint: disable=broad-except
            viol0('json-invalid', 'json() failed or is not valid JSON: %r' % e)
            return
        want = expected_json(dict(t.E.erecord))
        if got != want:
            diff = [k for k in set(got) | set(want) if got.get(k) != want.get(k)]
            viol0('json-mismatch', 'JSON differs from the record in %s' % sorted(diff)[:4])

    def render_dump(self, t, rule, viol0):
        E = t.E
        try:
            text = E.dump()
        except Exception as e:     # pylint: disable=broad-except
            viol0('dump-failed', 'dump() raised %r' % e)
            return
        rec = E.erecord
        lines = text.split('\n')
        if lines[-1] != '':
            viol0('dump-format', 'dump does not end with a newline')
        lines = lines[:-1]
        ecids = rec['ecids']
        cd = rec['cdict']
        per = {'wigm': ['vote'], 'meek': ['vote', 'kf'], 'qpq': ['quotient']}[t.method]
        glob = {'wigm': ['Non-Transferable'], 'meek': ['Votes', 'Surplus', 'Residual'], 'qpq': []}[t.method]
        gkeys = {'wigm': ['nt_votes'], 'meek': ['votes', 'surplus', 'residual'], 'qpq': []}[t.method]
        header = ['R', 'Action', 'Quota'] + glob
        for cid in ecids:
            header += ['%s.name' % cid, '%s.state' % cid] + ['%s.%s' % (cid, f) for f in per]
        if lines[0].split('\t') != header:
            viol0('dump-header', 'dump header %r, expected %r' % (lines[0].split('\t'), header))
        ncol = len(lines[0].split('\t'))
        acts = rec['actions']
        if len(lines) - 1 != len(acts):
            viol0('dump-rows', 'dump has %d rows for %d actions' % (len(lines) - 1, len(acts)))
            return
        for A, ln in zip(acts, lines[1:]):
            f = ln.split('\t')
            if A['tag'] in ('round', 'log', 'iterate'):
                want = [str(A['round']), A['tag'], A['msg']]
            else:
                want = ['X' if A['tag'] == 'end' else str(A['round']), A['tag'], str(A['quota'])]
                want += [str(A[k]) for k in gkeys]
                for cid in ecids:
                    cs = A['cstate'][cid]
                    code = {'withdrawn': 'W', 'hopeful': 'H', 'defeated': 'D'}.get(cs['state'])
                    if cs['state'] == 'elected':
                        code = 'e' if (t.method == 'wigm' and cs.get('pending')) else 'E'
                    want += [cd[cid]['name'], code] + [str(cs.get(k)) for k in per]
                if len(f) != ncol:
                    viol0('dump-columns', 'state row has %d columns, header has %d: %r' % (len(f), ncol, ln))
                    continue
            if f != want:
                bad = [i for i, (a, b) in enumerate(zip(f, want)) if a != b][:3]
                viol0('dump-mismatch', 'dump row %r disagrees with the action at columns %s (expected %r)' % (ln, bad, [want[i] for i in bad]))

    def render_report(self, t, rule, viol0):
        E = t.E
        try:
            text = E.report()
        except Exception as e:     # pylint: disable=broad-except
            viol0('report-failed', 'report() raised %r' % e)
            return
        rec = E.erecord
        cd = rec['cdict']
        cids = rec['cids']
        lines = text.split('\n')
        # header
        hdr = {}
        for ln in lines[:14]:
            if ln.startswith('\t') and ': ' in ln:
                k, v = ln[1:].split(': ', 1)
                hdr.setdefault(k, v)
        qn = E.rule.quota_name
        for k, v in (('Seats', str(rec['seats'])), ('Ballots', str(rec['nballots'])), (qn, str(rec['quota']))):
            if hdr.get(k) != v:
                viol0('report-header', 'report header %s is %r, record says %r' % (k, hdr.get(k), v))
        # action blocks
        blocks = []
        cur = None
        for ln in lines:
            if ln.startswith('Action: '):
                cur = {'msg': ln[len('Action: '):], 'lines': []}
                blocks.append(cur)
            elif ln.startswith('Round ') and ln.endswith(':'):
                cur = None
            elif cur is not None and ln.startswith('\t'):
                cur['lines'].append(ln[1:])
        acts = [A for A in rec['actions'] if A['tag'] not in ('log', 'round')]
        if len(blocks) != len(acts):
            viol0('report-blocks', 'report has %d Action blocks for %d actions' % (len(blocks), len(acts)))
            return
        V0 = E.V0
        for A, b in zip(acts, blocks):
            if b['msg'] != A['msg']:
                viol0('report-action-msg', 'report block %r vs action %r' % (b['msg'], A['msg']))
                continue
            cs = A['cstate']
            field = 'quotient' if t.method == 'qpq' else 'vote'
            lists_cands = A['tag'] in ('begin', 'count', 'elect', 'defeat', 'pend', 'transfer', 'end')
            if t.method == 'qpq' and A['tag'] not in ('begin', 'elect', 'defeat', 'transfer', 'end'):
                lists_cands = False
            got_c = [x for x in b['lines'] if x.split(':')[0] in ('Elected', 'Pending', 'Hopeful', 'Defeated')]
            got_t = [x for x in b['lines'] if x not in got_c]
            if lists_cands:
                want_c = []
                el = [c for c in cids if cs[c]['state'] == 'elected']
                for c in el:
                    if not cs[c].get('pending'):
                        want_c.append('Elected:  %s (%s)' % (cd[c]['name'], cs[c][field]))
                if t.method != 'qpq':
                    for c in el:
                        if cs[c].get('pending'):
                            want_c.append('Pending:  %s (%s)' % (cd[c]['name'], cs[c][field]))
                for c in cids:
                    if cs[c]['state'] == 'hopeful':
                        want_c.append('Hopeful:  %s (%s)' % (cd[c]['name'], cs[c][field]))
                de = [c for c in cids if cs[c]['state'] == 'defeated']
                if t.method == 'qpq':
                    want_c += ['Defeated: %s (%s)' % (cd[c]['name'], cs[c][field]) for c in de]
                else:
                    want_c += ['Defeated: %s (%s)' % (cd[c]['name'], cs[c][field]) for c in de if cs[c][field] > V0]
                    z = [cd[c]['name'] for c in de if cs[c][field] == V0]
                    if z:
                        want_c.append('Defeated: %s (%s)' % (', '.join(z), V0))
                if got_c != want_c:
                    viol0('report-candidates', 'block %r lists %r, the action has %r' % (A['msg'], got_c, want_c))
            elif got_c:
                viol0('report-candidates', 'block %r lists candidates although its tag is %s' % (A['msg'], A['tag']))
            # totals
            want_t = []
            if t.method == 'wigm':
                el = [c for c in cids if cs[c]['state'] == 'elected']
                ev = sum([cs[c]['vote'] for c in el if not cs[c]['pending']], V0)
                pv = sum([cs[c]['vote'] for c in el if cs[c]['pending']], V0)
                hv = sum([cs[c]['vote'] for c in cids if cs[c]['state'] == 'hopeful'], V0)
                dv = sum([cs[c]['vote'] for c in cids if cs[c]['state'] == 'defeated'], V0)
                tot = ev + pv + hv + dv + A['nt_votes']
                want_t.append('Elected votes: %s' % ev)
                if pv:
                    want_t.append('Pending votes: %s' % pv)
                want_t.append('Hopeful votes: %s' % hv)
                if dv:
                    want_t.append('Defeated votes: %s' % dv)
                want_t += ['Nontransferable votes: %s' % A['nt_votes'], 'Residual: %s' % (E.V(rec['nballots']) - tot),
                           'Total: %s' % E.V(rec['nballots']), 'Surplus: %s' % A['surplus']]
            elif t.method == 'meek':
                want_t = ['%s: %s' % (qn, A['quota']), 'Votes: %s' % A['votes'], 'Residual: %s' % A['residual'],
                          'Total: %s' % (A['votes'] + A['residual']), 'Surplus: %s' % A['surplus']]
            else:
                want_t = ['%s: %s' % (qn, A['quota'])]
            if got_t != want_t:
                viol0('report-totals', 'block %r totals %r, recomputed from the action %r' % (A['msg'], got_t, want_t))

    # ------------------------------------------------------------------
    def check(self, case, acc):
        for cfg, t, one in common.runs(case, snapshots=False):
            acc.evaluations += 1
            rule = cfg['rule']
            if t.E is None or t.kind is None:
                acc.violation('C18|%s|%s' % (rule, common.exc_sig(t)), 'no election: %r' % t.exc, one)
                continue
            bad = []

            def viol(kind, msg, s):
                bad.append(kind)
                acc.violation('C18|%s|%s' % (rule, kind), '%s at action %d (%s: %s) of %s'
                              % (msg, s.i, s.tag, s.msg, ecase.short(case, cfg)), one)

            def viol0(kind, msg):
                bad.append(kind)
                acc.violation('C18|%s|%s' % (rule, kind), '%s: %s' % (msg, ecase.short(case, cfg)), one)

            self.audit(t, rule, viol, acc)
            if t.ok():
                missing = [k for k in ('title', 'rule_name', 'method', 'arithmetic_name', 'seats', 'nballots', 'quota', 'cids', 'ecids', 'cdict', 'options')
                           if k not in t.E.record()]
                if missing:
                    viol0('record-header-missing', 'the record of a completed count lacks %s' % missing)
                j0 = t.E.json()
                self.render_json(t, viol0)
                self.render_dump(t, rule, viol0)
                self.render_report(t, rule, viol0)
                # rendering is a pure function of the record: a second rendering of the same election must be identical
                d1 = t.E.dump()
                if t.E.dump() != d1:
                    viol0('dump-not-repeatable', 'dump() of the same election differs on the second call')
                if t.E.json() != j0:
                    viol0('json-changes-after-rendering', 'json() before and after report()/dump() differ')
                if h64((case['s'], case['b'], configs.cfg_key(cfg))) % 3 == 0:
                    r1, j1 = t.E.report(), t.E.json()
                    if t.E.report() != r1 or t.E.json() != j1 or t.E.dump() != d1:
                        viol0('rendering-not-repeatable', 'report()/json()/dump() differ when called again on the same election')
            if not bad and t.ok():
                acc.traces_validated += 1
            if common.nontrivial_trace(t):
                acc.nontrivial.add(h64((case['n'], case['s'], case['b'], case.get('tie'), case.get('wd'), case.get('ud'), configs.cfg_key(cfg))))
                if len(acc.nontrivial) % 30000 == 1:
                    acc.sample({'case': ecase.short(case, cfg), 'audit_trail': ['%s|%s' % (A['tag'], A['msg']) for A in t.actions][:14]})


CHECK = C18()
