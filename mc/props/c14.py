"""C14 -- printed numbers are the stored values, correctly rounded.

Enumerated: Fixed p in {0..4, 9} x display in {default, 0..p, p+2 (clamped)} x every stored integer in
[-2*10^min(p,3), 2*10^min(p,3)] + carry cases (..9995, ..9996, ..4999, ..5000) + huge; Guarded (p,g) in
{(2,0),(2,2),(3,1),(1,3),(9,9)} x display in {default, 0..p+g+1}; Rational all a/b with |a| <= 60, b <= 16 x display in {0,1,3,12}.
Oracle: the exact value (stored/10^(p+g), or the fraction) rounded half-up at d digits -- for negative exact ties both
half-away-from-zero and half-toward-plus-infinity are accepted, the statement does not choose --, the sign shown
correctly (no '-0'), exactly d fraction digits (for d = 0 a bare integer or a trailing '.0' are both accepted),
guard digits set off after '_' when display > precision; the stored value is unchanged by str().
Reports/dumps/JSON use this printed form: cross-checked on a small election space (C18 does it at scale).
"""
import json
import re
from fractions import Fraction
from .. import arith, ecase, families, configs, spaces
from ..repo import Fixed, Guarded, Rational
from ..driver import Check
from . import common

NUM = re.compile(r'^(-?)(\d+)(?:\.(\d*))?(?:_(\d+))?$')


def half_up_candidates(exact, d):
    "acceptable roundings of exact at d digits, as Fractions"
    q = exact * 10 ** d
    fl = q.numerator // q.denominator
    frac = q - fl
    if frac * 2 < 1:
        return {Fraction(fl, 10 ** d)}
    if frac * 2 > 1:
        return {Fraction(fl + 1, 10 ** d)}
    if exact >= 0:
        return {Fraction(fl + 1, 10 ** d)}
    return {Fraction(fl + 1, 10 ** d), Fraction(fl, 10 ** d)}   # negative tie: toward +inf or away from zero


def judge(text, exact, d, p_split=None):
    "None if text is an acceptable print of exact at d digits, else a reason"
    m = NUM.match(text)
    if not m:
        return 'not a number'
    sign, ip, fp, gp = m.groups()
    fp = fp or ''
    digits = fp + (gp or '')
    if p_split is not None:
        if gp is None or len(fp) != p_split or len(digits) != d:
            return 'guard digits not set off after %d places' % p_split
    elif gp is not None:
        return 'unexpected underscore'
    elif d > 0 and len(fp) != d:
        return '%d fraction digits instead of %d' % (len(fp), d)
    elif d == 0 and fp not in ('', '0'):
        return 'fraction digits at display 0'
    val = Fraction(int(ip + digits or '0'), 10 ** len(digits))
    if sign:
        val = -val
        if val == 0:
            return 'negative zero'
    if val not in half_up_candidates(exact, d):
        return 'prints as %s, exact value %s rounds to %s' % (text, exact, '/'.join(str(float(x)) for x in half_up_candidates(exact, d)))
    return None


class C14(Check):
    pid = 'C14'
    level = 'exploration'
    rule = ('complete grids of (class, precision, guard, display, stored value) -- see module docstring -- each printed by the real class and judged against '
            'exact half-up rounding; evaluations = values printed; distinct_nontrivial = values whose print needs rounding (display < stored digits) or is negative, '
            'distinct by construction; plus every number of report/dump/JSON of a small election space compared with str() of the record value')
    assumptions = ['values outside the grids are represented by the boundary list only']
    budget = {'quick': 240, 'thorough': 3000}

    def cases(self, tier):
        for p in (0, 1, 2, 3, 4, 9):
            for d in [None] + list(range(0, p + 1)) + [p + 2]:
                yield {'k': 'fixed', 'p': p, 'd': d, 'big': tier == 'thorough'}
        for p, g in ((2, 0), (2, 2), (3, 1), (1, 3), (9, 9)):
            for d in [None] + list(range(0, p + g + 2)):
                yield {'k': 'guarded', 'p': p, 'g': g, 'd': d, 'big': tier == 'thorough'}
        for d in (None, 0, 1, 3, 12):
            for b in range(1, 17 if tier == 'quick' else 41):
                yield {'k': 'rational', 'd': d, 'b': b, 'N': 60 if tier == 'quick' else 150}
        D = configs.DEFAULTS + [{'rule': 'wigm', 'arithmetic': 'rational', 'display': 3},
                                {'rule': 'wigm', 'arithmetic': 'guarded', 'precision': 3, 'guard': 2, 'display': 5},
                                {'rule': 'meek', 'arithmetic': 'fixed', 'precision': 5, 'display': 2}]
        for c in families.seats_ties(3, spaces.U(3, 0, 3 if tier == 'quick' else 4), ties='id', cfgs=D):
            c['k'] = 'election'
            yield c

    def stored_values(self, scale_digits, big):
        lim = 2 * 10 ** min(scale_digits, 3)
        vals = set(range(-lim, lim + 1))
        s = 10 ** scale_digits
        for base in (s, 7 * s, 123 * s):
            for tail in (s // 2, s // 2 - 1, s // 2 + 1, s - 1, s - 5, s - 4, 4999 % s, 5000 % s, 9995 % s, 9996 % s, 0, 1):
                vals.add(base + tail)
                vals.add(-(base + tail))
        vals |= {10 ** 30 + 5, -(10 ** 30 + 5), 10 ** 25 + s // 2, -(10 ** 25 + s // 2)}
        if big:
            vals |= set(range(-20 * lim, 20 * lim + 1, 7))
        return sorted(vals, key=lambda v: (abs(v), v))

    def check(self, case, acc):
        k = case['k']
        if k == 'fixed':
            p, d = case['p'], case['d']
            if p:       # printing must not remember an earlier configuration
                V = arith.init_fixed(p + 1, display=d)
                for v in self.stored_values(p, False)[:400]:
                    str(V(v, True))
            V = arith.init_fixed(p, display=d, integer=(p == 0))
            dd = p if d is None or d > p or d < 0 else d
            for v in self.stored_values(p, case['big']):
                acc.evaluations += 1
                if dd < p or v < 0:
                    acc.nontrivial_count += 1
                x = V(v, True)
                text = str(x)
                why = judge(text, Fraction(v, 10 ** p), dd) if p else (None if text == str(v) else 'integer prints as %s' % text)
                if why:
                    acc.violation('C14|fixed|%s' % ('negative' if v < 0 else 'value'),
                                  'Fixed p=%d display=%s stored %d: %s (printed %r)' % (p, d, v, why, text), case)
                if x._value != v:
                    acc.violation('C14|fixed|mutated', 'str() changed the stored value %d -> %d' % (v, x._value), case)
            acc.sample({'class': 'Fixed', 'p': p, 'display': d, 'example': [str(V(v, True)) for v in (1, 10 ** p // 2 + 1, 15 * 10 ** max(p - 1, 0))]})
        elif k == 'guarded':
            p, g, d = case['p'], case['g'], case['d']
            # first print the same stored values under another split of the same digits (printing must not remember an earlier configuration)
            if p + g >= 2:
                p2 = p - 1 if p > 1 else p + 1
                V = arith.init_guarded(p2, p + g - p2, display=d)
                for v in self.stored_values(p + g, False)[:400]:
                    str(V(v, True))
            V = arith.init_guarded(p, g, display=d)
            dd = p if d is None else min(d, p + g)
            for v in self.stored_values(p + g, case['big']):
                acc.evaluations += 1
                if dd < p + g or v < 0:
                    acc.nontrivial_count += 1
                x = V(v, True)
                text = str(x)
                why = judge(text, Fraction(v, 10 ** (p + g)), dd, p_split=p if dd > p else None)
                if why:
                    acc.violation('C14|guarded|%s' % ('negative' if v < 0 else 'value'),
                                  'Guarded p=%d g=%d display=%s stored %d: %s (printed %r)' % (p, g, d, v, why, text), case)
                if x._value != v:
                    acc.violation('C14|guarded|mutated', 'str() changed the stored value', case)
        elif k == 'rational':
            d, b, N = case['d'], case['b'], case['N']
            V = arith.init_rational(display=d)
            dd = 12 if d is None else d
            for a in range(-N, N + 1):
                acc.evaluations += 1
                acc.nontrivial_count += 1 if (a % b or a < 0) else 0
                x = V(a, b)
                text = str(x)
                why = judge(text, Fraction(a, b), dd)
                if why:
                    acc.violation('C14|rational|%s' % ('negative' if a < 0 else 'value'),
                                  'Rational display=%s value %d/%d: %s (printed %r)' % (d, a, b, why, text), case)
                if Fraction(x) != Fraction(a, b):
                    acc.violation('C14|rational|mutated', 'str() changed the value', case)
        else:
            from .c18 import CHECK as C18
            for cfg, t, one in common.runs(case, snapshots=False):
                acc.evaluations += 1
                rule = cfg['rule']
                if not t.ok():
                    acc.violation('C14|%s|%s' % (rule, common.exc_sig(t)), 'count failed: %r' % t.exc, one)
                    continue

                def viol0(kind, msg):
                    acc.violation('C14|%s|render-%s' % (rule, kind), '%s: %s' % (msg, ecase.short(case, cfg)), one)
                C18.render_json(t, viol0)
                C18.render_dump(t, rule, viol0)
                C18.render_report(t, rule, viol0)


CHECK = C14()
