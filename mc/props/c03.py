"""C03 -- statutory rules carry out their published procedure, stage by stage.

For each statutory rule an independent reference implementation of the text quoted in the rule module (mc/refmodels/*.py: plain
ints scaled by 10^p, explicit floor / ceiling, nothing imported from droop) is run on every enumerated profile and its list of stage
events is compared, value for value to the last digit, with the projection of the real count's record onto the same alphabet
(quota; set of candidates elected / excluded at a stage; surplus transferred; every candidate's tally and the non-transferable
total after every stage; final winners).  QPQ has no prescribed decimal arithmetic: its model runs in exact rationals, events
are compared exactly and quotients / quotas within 10^-9.  wigm with arithmetic=fixed precision=4 must yield the wigm-prf record
action for action (differential).
Every model is literal; where the unchanged droop demonstrably departs from the quoted text the model has a named deviation switch.
The implementation must agree with the model *with the switches on* (anything else is a violation); a switch that is observable
(literal model differs from the switched model on some explored input) is reported under its own signature, which is listed in
known_findings.json.
"""
from fractions import Fraction
from .. import ecase, families, configs, spaces, trace
from ..refmodels import wigm_prf, meek_prf, scotland, cfer, mpls, qpq
from ..driver import Check, h64
from . import common

STAT = ['wigm-prf', 'wigm-prf-batch', 'meek-prf', 'scotland', 'mpls', 'cfer', 'cfer-batch', 'qpq']

#  rule -> (model function, kwargs of droop's behaviour, [(switch name, kwargs with that switch back to literal)])
MODELS = {
    'wigm-prf': (wigm_prf.run, dict(batch=False, d3_top_of_round_only=True), [('d3-placement', dict(batch=False))]),
    'wigm-prf-batch': (wigm_prf.run, dict(batch=True, d3_top_of_round_only=True), [('d3-placement', dict(batch=True))]),
    'scotland': (scotland.run, dict(transfer_after_last_vacancies=True), [('52(2)-last-exclusion-transferred', dict())]),
    # (the two-step-truncation switch of cfer and the multiply-before-divide switch of mpls described droop before the fix: commits
    #  42a6828 / ab5ee8a; droop must now agree with the literal text there)
    'cfer': (cfer.run, dict(batch=False, epsilon_threshold=True), [('10059(a)(2)-threshold', dict(batch=False))]),
    'cfer-batch': (cfer.run, dict(batch=True, epsilon_threshold=True), [('10059(a)(2)-threshold', dict(batch=True))]),
    'mpls': (mpls.run, dict(), []),
}


def project_gregory(t, rule):
    "the record of a wigm-method count as stage events"
    names = common.names_of(t)
    byname = {v: k for k, v in names.items()}
    u = t.units
    ev = []
    group = None

    def flush():
        nonlocal group
        if group:
            ev.append((group[0], frozenset(group[1])))
            group = None

    def tally(A):
        return ('tally', {c: u(d['vote']) for c, d in A['cstate'].items() if 'vote' in d}, u(A['nt_votes']))
    started = False
    for A in t.actions:
        tag = A['tag']
        if tag in ('log', 'round', 'tie'):
            continue
        if tag in ('begin', 'count'):
            if not started:
                started = True
                ev.append(('quota', u(A['quota'])))
                ev.append(tally(A))
            continue
        cid = byname.get(A['msg'].rsplit(': ', 1)[-1]) if ': ' in A['msg'] else None
        if tag in ('elect', 'defeat'):
            if tag == 'elect' and A['msg'].startswith('Elect pending'):
                continue            # cfer re-lists an already elected candidate when it finalises it
            kind = (tag, 'remaining' in A['msg'])    # epilogue elections / exclusions are a stage of their own
            if group and group[2] != kind:
                flush()
            if rule == 'mpls' and tag == 'elect' and A['msg'].startswith('Elect: '):
                flush()
                ev.append(('elect', frozenset([cid])))
                ev.append(('surplus', cid, u(A['cstate'][cid]['vote']) - u(A['quota'])))
                continue
            if not group:
                group = (tag, [], kind)
            group[1].append(cid)
            continue
        flush()
        if tag == 'unpend':
            ev.append(('surplus', cid, u(A['cstate'][cid]['vote']) - u(A['quota'])))
        elif tag == 'transfer':
            ev.append(tally(A))
        elif tag == 'end':
            ev.append(('final', frozenset(c for c, d in A['cstate'].items() if d['state'] == 'elected')))
    return ev


def project_meek_prf(t):
    names = common.names_of(t)
    byname = {v: k for k, v in names.items()}
    u = t.units
    acts = [A for A in t.actions if A['tag'] not in ('log', 'tie', 'begin')]
    ev = []

    def snap(A):
        cs = A['cstate']
        return ({c: u(d['vote']) for c, d in cs.items() if 'vote' in d}, u(A['quota']), {c: u(d['kf']) for c, d in cs.items() if 'vote' in d},
                u(A['surplus']), u(A['residual']))
    i = 0
    while i < len(acts):
        A = acts[i]
        if A['tag'] == 'round':
            i += 1
            continue
        if A['tag'] == 'elect' and 'remaining' not in A['msg']:
            grp = []
            last = None
            while i < len(acts) and acts[i]['tag'] == 'elect' and 'remaining' not in acts[i]['msg']:
                grp.append(byname[acts[i]['msg'].rsplit(': ', 1)[1]])
                last = acts[i]
                i += 1
            v, q, k, s, r = snap(last)
            ev.append(('elect', frozenset(grp), v, q, k, None, r))    # the surplus field of an in-iteration elect snapshot is written before it is recomputed
            continue
        if A['tag'] == 'defeat' and 'remaining' not in A['msg']:
            v, q, k, s, r = snap(A)
            ev.append(('defeat', byname[A['msg'].rsplit(': ', 1)[1]], v, q, k, s, r))
        if A['tag'] == 'end':
            ev.append(('final', frozenset(c for c, d in A['cstate'].items() if d['state'] == 'elected')))
        i += 1
    return ev


def project_qpq(t):
    names = common.names_of(t)
    byname = {v: k for k, v in names.items()}
    ev = []
    group = None

    def flush():
        nonlocal group
        if group:
            ev.append((group[0], frozenset(group[1])))
            group = None
    for A in t.actions:
        tag = A['tag']
        if tag in ('log', 'round', 'tie', 'begin', 'transfer'):
            if tag != 'log' and tag != 'tie':
                flush()
            continue
        if tag == 'end':
            flush()
            ev.append(('final', frozenset(c for c, d in A['cstate'].items() if d['state'] == 'elected')))
            continue
        cid = byname.get(A['msg'].rsplit(': ', 1)[-1])
        if 'remaining' in A['msg']:
            if group and group[0] != tag:
                flush()
            if not group:
                group = (tag, [])
            group[1].append(cid)
            continue
        flush()
        cs = A['cstate']
        quot = {c: t.unit_value(d['quotient']) for c, d in cs.items() if d.get('quotient') is not None and (d['state'] == 'hopeful' or c == cid)}
        ev.append(('stage', quot, t.unit_value(A['quota'])))
        ev.append((tag, frozenset([cid])))
    return ev


def same_qpq(a, b):
    if len(a) != len(b):
        return False
    tol = Fraction(1, 10 ** 9)
    for x, y in zip(a, b):
        if x[0] != y[0]:
            return False
        if x[0] == 'stage':
            if set(x[1]) != set(y[1]) or any(abs(x[1][c] - y[1][c]) > tol for c in x[1]) or abs(x[2] - y[2]) > tol:
                return False
        elif x != y:
            return False
    return True


def first_diff(a, b):
    k = next((i for i, (x, y) in enumerate(zip(a, b)) if x != y), min(len(a), len(b)))
    return k, (a[k] if k < len(a) else None), (b[k] if k < len(b) else None)


class C03(Check):
    pid = 'C03'
    level = 'model_checking'
    rule = ('8 statutory rule names on U(3,<=4) x seats x two tie orders, U(3,5), weighted W(3,3,3,{2,3,5}) x seats {1,2}, 4-candidate W(4,2,3,{1,2,3}) x seats {1,2,3}, bullet piles BU(4), bullets+pairs BP(4,3) (multi-stage ties), '
            'withdrawn subsets, mpls additionally x undeclared subsets, the test ballot files shipped with the repository (5-25 candidates; thorough: all 21 Glasgow wards) (thorough: U(3,6..7), W(3,3,3,{1,2,3,5,8}), W(4,2,4,{1,2,3}), W(4,4,3,{1,2,3}), W(5,2,3,{1,2,4}), all 6 tie orders); '
            'states = distinct model stage-states (rule, statuses implied by events so far, tallies), transitions = distinct consecutive stage-state pairs, '
            'traces_validated = (profile, rule) pairs whose complete model trace equals the projected implementation trace; non-trivial = pairs whose trace has a transfer or exclusion stage')
    assumptions = ['bounded election sizes', 'interpretive choices of each model are listed in its docstring (droop\'s documented readings are adopted, not independently verified)',
                   'a deviation switch is added only where the failing input is shown against the real code; the check compares against the switched model']
    budget = {'quick': 240, 'thorough': 3000}

    def cases(self, tier):
        S = [{'rule': r} for r in STAT]
        q = tier == 'quick'
        yield from families.seats_ties(2, spaces.U(2, 0, 7), cfgs=S)
        yield from families.seats_ties(3, spaces.U(3, 0, 4), cfgs=S)
        yield from families.withdrawn_family(3, spaces.U(3, 0, 4), S, seats=(1, 2))
        yield from families.undeclared_family(3, spaces.U(3, 0, 4), [{'rule': 'mpls'}])
        yield from families.seats_ties(4, spaces.W(4, 2, 3, (1, 2, 3) if not q else (1, 2)), seats=(1, 2, 3), ties='id', cfgs=S)
        yield from families.seats_ties(4, spaces.BU(4), seats=(1, 2, 3), ties='id', cfgs=S)
        yield from families.seats_ties(4, spaces.BP(4, 3), seats=(1, 2), ties='id', cfgs=[{'rule': 'scotland'}, {'rule': 'cfer-batch'}, {'rule': 'wigm-prf-batch'}, {'rule': 'mpls'}])
        yield from families.seats_ties(3, spaces.W(3, 3, 3, (2, 3, 5)), seats=(1, 2), ties='id', cfgs=S)
        yield from families.seats_ties(3, spaces.U(3, 5, 5), ties='id', cfgs=S)
        yield from families.repo_files(S, max_bytes=4000 if q else 10 ** 7)
        yield from families.corner_corpus(S)
        # piles of ~10^5 ballots: zero-truncating and unit-sized surpluses.  Not qpq: Woodall prescribes no decimal arithmetic, and at this size droop's
        # forced guarded 9+9 digits decide exact quotient == quota knife edges differently from exact rationals (99999 vs 99998.999999995)
        yield from families.seats_ties(3, spaces.HUGE(3), seats=(1, 2), ties='id', cfgs=[c for c in S if c['rule'] != 'qpq'])
        if not q:
            yield from families.seats_ties(3, spaces.U(3, 0, 4), ties='all', cfgs=S)
            yield from families.seats_ties(3, spaces.W(3, 3, 3, (1, 2, 3, 5, 8)), seats=(1, 2), cfgs=S)
            yield from families.seats_ties(4, spaces.W(4, 2, 4, (1, 2, 3)), seats=(1, 2, 3), ties='id', cfgs=S)
            yield from families.undeclared_family(4, spaces.W(4, 2, 3, (1, 2)), [{'rule': 'mpls'}], seats=(1, 2, 3))
            yield from families.seats_ties(3, spaces.U(3, 6, 6), ties='id', cfgs=S)
            yield from families.seats_ties(4, spaces.W(4, 4, 3, (1, 2, 3)), seats=(2, 3), ties='id', cfgs=S)
            yield from families.seats_ties(5, spaces.W(5, 2, 3, (1, 2, 4)), seats=(2, 3), ties='id', cfgs=S)
            yield from families.seats_ties(4, spaces.BP(4), seats=(1, 2), ties='id', cfgs=[{'rule': 'scotland'}, {'rule': 'cfer-batch'}, {'rule': 'mpls'}])
            yield from families.seats_ties(3, spaces.U(3, 7, 7), ties='id', cfgs=S)

    def check(self, case, acc):
        n, seats = case['n'], case['s']
        text = ecase.text(case)
        if case.get('file'):
            # a ballot file of the repository's own tests: the model gets the ballots as the (separately checked, C15) parser read them
            from ..repo import ElectionProfile
            prof = ElectionProfile(data=text)
            if prof.ballotLinesEqual:
                return
            ballots = [(bl.multiplier, tuple(bl.ranking)) for bl in prof.ballotLines]
            tie = sorted(prof.tieOrder, key=prof.tieOrder.get)
            wd = ()      # already removed from the rankings by the parser; the model is told about them through n only
            wd = tuple(sorted(prof.withdrawn))
            ud = tuple(sorted(prof.undeclared))
        else:
            ballots = [(m, tuple(r)) for m, r in case['b']]
            tie = list(case.get('tie') or range(1, n + 1))
            wd = tuple(case.get('wd') or ())
            ud = tuple(case.get('ud') or ())
        for cfg in case['cfgs']:
            rule = cfg['rule']
            one = common.one_cfg(case, cfg)
            acc.evaluations += 1
            t = trace.run(text, cfg, snapshots=False)
            if not t.ok():
                acc.violation('C03|%s|%s' % (rule, common.exc_sig(t)), 'count failed: %r on %s' % (t.exc, ecase.short(case, cfg)), one)
                continue
            kw = {'withdrawn': wd}
            if rule == 'mpls':
                kw['undeclared'] = ud
            if rule == 'meek-prf':
                impl = project_meek_prf(t)
                model = meek_prf.run(n, seats, ballots, tie, **kw)
                ok = impl == model
                lits = []
            elif rule == 'qpq':
                impl = project_qpq(t)
                model = qpq.run(n, seats, ballots, tie, **kw)
                ok = same_qpq(impl, model)
                lits = []
            else:
                fn, on, lits = MODELS[rule]
                impl = project_gregory(t, rule)
                model = fn(n, seats, ballots, tie, **dict(kw, **on))
                ok = impl == model
            if not ok:
                k, a, b = first_diff(impl, model)
                acc.violation('C03|%s|mismatch' % rule, 'stage event %d: implementation %s, published procedure %s: %s' % (k, a, b, ecase.short(case, cfg)), one)
            else:
                acc.traces_validated += 1
            for sw, litkw in lits:
                lit = fn(n, seats, ballots, tie, **dict(kw, **litkw))
                if lit != model:
                    k, a, b = first_diff(model, lit)
                    acc.stats['text_deviation_observable|%s|%s' % (rule, sw)] += 1
                    acc.violation('C03|%s|text-deviation|%s' % (rule, sw),
                                  'the quoted text read literally gives stage event %d = %s where droop (and the model with switch %s) gives %s: %s'
                                  % (k, b, sw, a, ecase.short(case, cfg)), one)
            # model state graph
            prev = None
            stages = 0
            for e in model:
                if e[0] in ('tally', 'stage'):
                    stages += 1
                key = h64((rule, repr(e)))
                acc.states.add(key)
                if prev is not None:
                    acc.transitions.add(h64((prev, key)))
                prev = key
            if stages > 1 or any(e[0] == 'defeat' and e is not model[-2] for e in model):
                acc.nontrivial.add(h64((n, seats, case['b'], case.get('tie'), wd, ud, rule)))
                if len(acc.nontrivial) % 40000 == 1:
                    acc.sample({'case': ecase.short(case, cfg), 'model_trace': [repr(e)[:150] for e in model][:12]})
        # differential: parametric wigm configured as the PRF reference rule
        if not ud and any(c['rule'] == 'wigm-prf' for c in case['cfgs']):
            acc.evaluations += 1
            a = trace.run(text, {'rule': 'wigm-prf'}, snapshots=False)
            b = trace.run(text, {'rule': 'wigm', 'arithmetic': 'fixed', 'precision': 4}, snapshots=False)
            if a.ok() and b.ok():
                ra = [(A['tag'], A['msg'], A['round'], str(A.get('quota')), str(A.get('nt_votes')),
                       tuple(sorted((c, d['state'], str(d.get('vote')), d.get('pending')) for c, d in A.get('cstate', {}).items()))) for A in a.actions]
                rb = [(A['tag'], A['msg'], A['round'], str(A.get('quota')), str(A.get('nt_votes')),
                       tuple(sorted((c, d['state'], str(d.get('vote')), d.get('pending')) for c, d in A.get('cstate', {}).items()))) for A in b.actions]
                if ra != rb:
                    k, x, y = first_diff(ra, rb)
                    acc.violation('C03|wigm-as-prf|mismatch', 'wigm fixed precision=4 differs from wigm-prf at action %d: %s vs %s: %s'
                                  % (k, y and y[:3], x and x[:3], ecase.short(case)), dict(case, cfgs=[{'rule': 'wigm-prf'}]))


CHECK = C03()
