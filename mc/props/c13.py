"""C13 -- Guarded arithmetic: tolerance law, guard=0 is fixed, quasi-exact equals exact.

(a) comparison law, grid: (p,g) in {(0,0),(2,0),(2,1),(2,2),(3,3),(9,9)}; for every anchor in {0, +-1, +-10^(p+g), 10^30} every stored pair (a, a+delta)
    (and the same under display settings below / between / above the precision: display is cosmetic) with |delta| <= 3*geps+3 (capped at +-1600 around the interesting band for 9+9): a == b iff |a-b| < 10^g/2 stored units (iff a = b when g = 0),
    otherwise the order is that of the stored values; exactly one of <, ==, > holds; != <= >= consistent; maxDiff/minDiff statistics updated as documented; Guarded.min returns the value that is lowest as stored.
(b) guard = 0 is Fixed: every arithmetic operation of the C12 grid at p in {0,1,2,3} gives the same stored integer and the same str() under Guarded(p,0) and Fixed(p);
    and every enumerated profile under wigm / meek / warren gives the same record (actions, tallies, quotas, printed numbers, dump), arithmetic name/info/report apart.
(c) quasi-exact is exact: wigm / meek / warren under guarded (18,9), (12,6), (9,9) versus rational (same explicit omega): whenever the guarded count's own
    statistics show no comparison near the tolerance (maxDiff*1000 < geps and minDiff > 1000*geps -- an operational reading; a narrower premise can only
    skip cases) the action sequence (tags, named candidates, statuses) is identical and every tally and quota agrees within one unit of the declared precision.
"""
import json
from fractions import Fraction
from .. import arith, ecase, families, configs, spaces, trace
from ..repo import Fixed, Guarded
from ..driver import Check, h64
from . import common

PG = [(0, 0), (2, 0), (2, 1), (2, 2), (3, 3), (9, 9)]


def strip_record(js):
    d = json.loads(js)
    for k in ('arithmetic_name', 'arithmetic_info', 'arithmetic_report', 'options'):
        d.pop(k, None)
    return d


class C13(Check):
    pid = 'C13'
    level = 'exploration'
    rule = ('(a) complete bands of stored pairs around the anchors for six (precision, guard) settings; (b) the C12 operand grid [-40,40]^2 (+ muldiv triples [-10,10]^3) under Guarded(p,0) vs Fixed(p) '
            'and U(3,<=4) x seats (+ weighted W(3,3,3,{1,2,3,5,8}) sample) under wigm/meek/warren; (c) U(3,<=5) x seats for wigm (U(3,<=4) for meek/warren, rational under a CPU budget) at three guarded settings. '
            'evaluations = comparisons / operations / count pairs checked; distinct_nontrivial = comparison pairs inside the tolerance band or count pairs with at least one transfer, distinct by construction or by hash')
    assumptions = ['premise of (c) read operationally from the count\'s own maxDiff/minDiff statistics', 'bounded election sizes; rational meek/warren under a 3 s budget (overrun = not explored)']
    budget = {'quick': 240, 'thorough': 3000}

    def cases(self, tier):
        for p, g in PG:
            for anchor in (0, 1, -1, 10 ** (p + g), -(10 ** (p + g)), 10 ** 30):
                yield {'k': 'cmp', 'p': p, 'g': g, 'anchor': str(anchor)}
            # the display setting is cosmetic: the same law with display below, between and above precision
            for d in sorted({0, max(0, p - 1), p + 1, p + g}):
                yield {'k': 'cmp', 'p': p, 'g': g, 'anchor': str(10 ** (p + g) + 3), 'd': d}
        R = 40 if tier == 'quick' else 90
        for p in (0, 1, 2, 3):
            for a in range(-R, R + 1):
                yield {'k': 'g0-ops', 'p': p, 'a': a, 'R': R}
            yield {'k': 'g0-str', 'p': p}
        g0 = []
        for r in ('wigm', 'meek', 'warren'):
            for p in ((2, 4) if tier == 'quick' else (1, 2, 4, 6)):
                c = {'rule': r, 'precision': p}
                if r != 'wigm':
                    c['omega'] = max(1, p // 2)
                g0.append(c)
        g0.append({'rule': 'wigm', 'precision': 4, 'display': 2})
        g0.append({'rule': 'meek', 'precision': 4, 'display': 1, 'omega': 2})
        g0.append({'rule': 'wigm', 'precision': 0})
        g0.append({'rule': 'wigm', 'precision': 3, 'integer_quota': True, 'defeat_batch': 'zero'})
        g0.append({'rule': 'meek', 'precision': 3, 'omega': 5, 'defeat_batch': 'none'})
        for c in families.seats_ties(3, spaces.U(3, 0, 4), ties='id', cfgs=g0):
            c['k'] = 'g0-count'
            yield c
        for c in families.seats_ties(3, spaces.Q(3, 0, 3), ties='id', cfgs=[x for x in g0 if x['rule'] != 'wigm']):
            c['k'] = 'g0-count'
            yield c
        qx = [{'rule': 'wigm', 'precision': 18, 'guard': 9}, {'rule': 'wigm', 'precision': 12, 'guard': 6}, {'rule': 'wigm', 'precision': 9, 'guard': 9}]
        for c in families.seats_ties(3, spaces.U(3, 0, 5 if tier == 'thorough' else 4), ties='id', cfgs=qx):
            c['k'] = 'qx-count'
            yield c
        for c in families.seats_ties(3, spaces.W(3, 3, 3, (1, 2, 3, 5, 8)), seats=(1, 2), ties='id', cfgs=qx[:1] + g0[:1]):
            c['k'] = 'mixed-count'
            yield c
        mqx = [{'rule': r, 'precision': p, 'guard': g, 'omega': 4} for r in ('meek', 'warren') for p, g in ((18, 9), (9, 9))]
        for c in families.seats_ties(3, spaces.U(3, 0, 3 if tier == 'quick' else 4), ties='id', cfgs=mqx):
            c['k'] = 'qx-count'
            c['alarm'] = 3
            yield c

    # ------------------------------------------------------------------ (a)
    def cmp_law(self, case, acc):
        p, g = case['p'], case['g']
        anchor = int(case['anchor'])
        V = arith.init_guarded(p, g, display=case.get('d'))
        geps = max(1, 10 ** g // 2)
        band = 3 * geps + 3
        if band > 1600:
            deltas = list(range(-1600, 1601)) + list(range(geps - 800, geps + 801)) + list(range(-geps - 800, -geps + 801)) + \
                [3 * geps, -3 * geps, 10 ** g, -(10 ** g)]
        else:
            deltas = range(-band, band + 1)
        a = anchor
        x = V(a, True)
        exp_max, exp_min = 0, 10 ** (p + g) * 100
        if V.maxDiff != exp_max or V.minDiff != exp_min:
            acc.violation('C13|cmp|stats-init', 'statistics not reset by initialize: maxDiff=%s minDiff=%s' % (V.maxDiff, V.minDiff), case)
        for dl in deltas:
            b = a + dl
            y = V(b, True)
            diff = abs(dl)
            want_eq = diff * 2 < 10 ** g if g else diff == 0
            res = {'eq': x == y, 'ne': x != y, 'lt': x < y, 'le': x <= y, 'gt': x > y, 'ge': x >= y}
            ncmp = 6
            acc.evaluations += ncmp
            if diff < 2 * geps:
                acc.nontrivial_count += 1
            want = {'eq': want_eq, 'ne': not want_eq, 'lt': (not want_eq) and a < b, 'gt': (not want_eq) and a > b,
                    'le': want_eq or a < b, 'ge': want_eq or a > b}
            if res != want:
                bad = sorted(k for k in res if res[k] is not want[k])
                acc.violation('C13|cmp|law', 'Guarded p=%d g=%d stored %s vs %s (diff %d, half unit %s): %s wrong' % (p, g, a, b, diff, Fraction(10 ** g, 2), bad), case)
            if sum((res['lt'], res['eq'], res['gt'])) != 1:
                acc.violation('C13|cmp|trichotomy', 'Guarded p=%d g=%d %s vs %s: lt/eq/gt = %s' % (p, g, a, b, (res['lt'], res['eq'], res['gt'])), case)
            if want_eq:
                exp_max = max(exp_max, diff)
            else:
                exp_min = min(exp_min, diff)
            if V.maxDiff != exp_max or V.minDiff != exp_min:
                acc.violation('C13|cmp|stats', 'after comparing %s with %s: maxDiff=%s minDiff=%s, documented values %s / %s'
                              % (a, b, V.maxDiff, V.minDiff, exp_max, exp_min), case)
                exp_max, exp_min = V.maxDiff, V.minDiff
        # min() returns the value that is lowest as stored ("find actual minimum value in a list"), whatever the tolerance
        span = list(range(-2 * geps - 1, 2 * geps + 2)) if geps < 40 else [-2 * geps, -geps - 1, -geps, -geps + 1, -1, 0, 1, geps - 1, geps, geps + 1, 2 * geps]
        import itertools as _it
        for combo in _it.product(span[::max(1, len(span) // 9)], repeat=3):
            acc.evaluations += 1
            got = V.min([V(a + d, True) for d in combo])
            if type(got) is not V or got._value != a + min(combo):
                acc.violation('C13|cmp|min', 'Guarded.min of stored %s at p=%d g=%d returns %r' % ([a + d for d in combo], p, g, got), case)
        acc.sample({'k': 'cmp', 'p': p, 'g': g, 'anchor': case['anchor'], 'pairs': len(deltas)})

    # ------------------------------------------------------------------ (b) grid
    def g0_ops(self, case, acc):
        p, a, R = case['p'], case['a'], case['R']
        F = arith.init_fixed(p, integer=(p == 0))
        G = arith.init_guarded(p, 0)
        if G.exact or G.quasi_exact or G.epsilon._value != 1:
            acc.violation('C13|g0|flags', 'Guarded(p,0) has exact=%s quasi_exact=%s' % (G.exact, G.quasi_exact), case)

        def same(name, fg, ff, ops):
            acc.evaluations += 1
            try:
                rg = fg()
            except Exception as e:     # pylint: disable=broad-except
                rg = e
            try:
                rf = ff()
            except Exception as e:     # pylint: disable=broad-except
                rf = e
            vg = getattr(rg, '_value', rg)
            vf = getattr(rf, '_value', rf)
            if isinstance(vg, Exception) or isinstance(vf, Exception):
                if type(vg) is type(vf):
                    return
            if vg != vf or (hasattr(rg, '_value') and type(rg) is not G):
                acc.violation('C13|g0|%s' % name, '%s%r at p=%d: Guarded(p,0) gives %r, Fixed(p) gives %r' % (name, ops, p, vg, vf), case)
        xg, xf = G(a, True), F(a, True)
        for b in range(-R, R + 1):
            yg, yf = G(b, True), F(b, True)
            o = (a, b)
            same('add', lambda: xg + yg, lambda: xf + yf, o)
            same('sub', lambda: xg - yg, lambda: xf - yf, o)
            same('mul-op', lambda: xg * yg, lambda: xf * yf, o)
            for rnd in ('down', 'up'):
                same('mul-' + rnd, lambda: G.mul(xg, yg, round=rnd), lambda: F.mul(xf, yf, round=rnd), o)
                if b:
                    same('div-' + rnd, lambda: G.div(xg, yg, round=rnd), lambda: F.div(xf, yf, round=rnd), o)
            if b:
                same('div-op', lambda: xg / yg, lambda: xf / yf, o)
            for nm in ('__eq__', '__ne__', '__lt__', '__le__', '__gt__', '__ge__'):
                same(nm, lambda: getattr(xg, nm)(yg), lambda: getattr(xf, nm)(yf), o)
            if abs(b) <= 10 and abs(a) <= 10:
                for c in range(-10, 11):
                    if c:
                        for rnd in ('down', 'up'):
                            same('muldiv-' + rnd, lambda: G.muldiv(xg, yg, G(c, True), round=rnd), lambda: F.muldiv(xf, yf, F(c, True), round=rnd), (a, b, c))
        for k in range(-7, 8):
            same('mul-int', lambda: xg * k, lambda: xf * k, (a, k))
            same('add-int', lambda: xg + k, lambda: xf + k, (a, k))
            if k:
                same('floordiv-int', lambda: xg // k, lambda: xf // k, (a, k))
        same('neg', lambda: -xg, lambda: -xf, (a,))
        same('abs', lambda: abs(xg), lambda: abs(xf), (a,))
        same('bool', lambda: bool(xg), lambda: bool(xf), (a,))
        same('from-int', lambda: G(a), lambda: F(a), (a,))
        acc.nontrivial_count += 1

    def g0_str(self, case, acc):
        p = case['p']
        for d in [None] + list(range(0, p + 1)):
            F = arith.init_fixed(p, display=d, integer=(p == 0))
            G = arith.init_guarded(p, 0, display=d)
            for v in list(range(-300, 301)) + [10 ** 20 + 5, -(10 ** 20) - 5]:
                acc.evaluations += 1
                sf, sg = str(F(v, True)), str(G(v, True))
                ok = sf == sg
                if not ok:
                    acc.violation('C13|g0|str', 'stored %d at p=%d display=%s prints %r under Guarded(p,0) and %r under Fixed' % (v, p, d, sg, sf), case)

    # ------------------------------------------------------------------ (b) counts
    def g0_count(self, case, acc):
        text = ecase.text(case)
        for c in case['cfgs']:
            cf = dict(c)
            cg = dict(c)
            cf['arithmetic'] = 'fixed' if c['precision'] else 'integer'
            if not c['precision']:
                cf.pop('precision')
            cg['arithmetic'] = 'guarded'
            cg['guard'] = 0
            one = common.one_cfg(case, c)
            acc.evaluations += 1
            tf = trace.run(text, cf, snapshots=False)
            jf = df = None
            if tf.ok():
                jf, df = strip_record(tf.E.json()), tf.E.dump()
            tg = trace.run(text, cg, snapshots=False)
            if tf.ok() != tg.ok():
                acc.violation('C13|g0-count|%s|outcome' % c['rule'], 'fixed: %r, guarded guard=0: %r on %s' % (tf.exc, tg.exc, ecase.short(case, c)), one)
                continue
            if not tf.ok():
                continue
            jg, dg = strip_record(tg.E.json()), tg.E.dump()
            continue_cmp = jf == jg and df == dg
            if not continue_cmp:
                keys = [k for k in jf if jf[k] != jg.get(k)]
                acc.violation('C13|g0-count|%s|record' % c['rule'], 'records differ in %s (dump equal: %s) on %s' % (keys[:3], df == dg, ecase.short(case, c)), one)
            if common.nontrivial_trace(tf):
                acc.nontrivial.add(h64(('g0', case['s'], case['b'], configs.cfg_key(c))))

    # ------------------------------------------------------------------ (c)
    def qx_count(self, case, acc):
        text = ecase.text(case)
        alarm = case.get('alarm', 20)
        for c in case['cfgs']:
            if 'guard' not in c:
                continue
            one = common.one_cfg(case, c)
            cg = dict(c, arithmetic='guarded')
            cr = {k: v for k, v in c.items() if k not in ('precision', 'guard')}
            cr['arithmetic'] = 'rational'
            acc.evaluations += 1
            tg = trace.run(text, cg, snapshots=False, alarm=alarm)
            if not tg.ok():
                acc.violation('C13|qx|%s|guarded-failed' % c['rule'], '%r on %s' % (tg.exc, ecase.short(case, c)), one)
                continue
            geps = tg.geps
            premise = Guarded.maxDiff * 1000 < geps and Guarded.minDiff > 1000 * geps
            gp = 10 ** c['precision']
            gsnap = [(A['tag'], common.named(A, common.names_of(tg)), trace.status_vector(A),
                      tuple(sorted((k, tg.unit_value(d['vote'])) for k, d in A['cstate'].items() if 'vote' in d)), tg.unit_value(A['quota']))
                     for A in tg.actions if A['tag'] != 'log']
            tr = trace.run(text, cr, snapshots=False, alarm=alarm)
            if not tr.ok():
                if isinstance(tr.exc, trace.CountTimeout):
                    acc.stats['rational_budget_overrun_not_explored'] += 1
                    continue
                acc.violation('C13|qx|%s|rational-failed' % c['rule'], '%r on %s' % (tr.exc, ecase.short(case, c)), one)
                continue
            if not premise:
                acc.stats['premise_false_skipped'] += 1
                continue
            acc.stats['premise_true'] += 1
            rsnap = [(A['tag'], common.named(A, common.names_of(tr)), trace.status_vector(A),
                      tuple(sorted((k, Fraction(d['vote'])) for k, d in A['cstate'].items() if 'vote' in d)), Fraction(A['quota']))
                     for A in tr.actions if A['tag'] != 'log']
            if [x[:3] for x in gsnap] != [x[:3] for x in rsnap]:
                i = next((i for i, (a, b) in enumerate(zip(gsnap, rsnap)) if a[:3] != b[:3]), min(len(gsnap), len(rsnap)))
                acc.violation('C13|qx|%s|actions' % c['rule'], 'action sequences differ at step %d: guarded %s, rational %s on %s'
                              % (i, gsnap[i][:3] if i < len(gsnap) else None, rsnap[i][:3] if i < len(rsnap) else None, ecase.short(case, c)), one)
                continue
            tol = Fraction(1, gp)
            for i, (a, b) in enumerate(zip(gsnap, rsnap)):
                if abs(a[4] - b[4]) >= tol or any(abs(x[1] - y[1]) >= tol for x, y in zip(a[3], b[3])):
                    acc.violation('C13|qx|%s|values' % c['rule'], 'tally/quota differ by a unit of precision or more at step %d on %s' % (i, ecase.short(case, c)), one)
                    break
            if common.nontrivial_trace(tg):
                acc.nontrivial.add(h64(('qx', case['s'], case['b'], configs.cfg_key(c))))

    def check(self, case, acc):
        k = case['k']
        if k == 'cmp':
            self.cmp_law(case, acc)
        elif k == 'g0-ops':
            self.g0_ops(case, acc)
        elif k == 'g0-str':
            self.g0_str(case, acc)
        elif k == 'g0-count':
            self.g0_count(case, acc)
        elif k == 'qx-count':
            self.qx_count(case, acc)
        elif k == 'mixed-count':
            sub = dict(case)
            sub['cfgs'] = [c for c in case['cfgs'] if 'guard' in c]
            self.qx_count(sub, acc)
            sub['cfgs'] = [c for c in case['cfgs'] if 'guard' not in c]
            self.g0_count(sub, acc)
        if acc.cases % 4001 == 1 and k.endswith('count'):
            acc.sample({'k': k, 'case': ecase.short(case), 'cfgs': case['cfgs'][:2]})


CHECK = C13()
