"""C02 -- votes are conserved at every step: none created, none lost beyond rounding.

Conservation model evaluated on every recorded snapshot of every enumerated real count:
 Gregory family : B - 2*ulp*B*k <= sum(tallies) + non-transferable <= B   (k = surplus transfers so far,
                  measured from the ballot snapshots: a step in which some ballot's weight decreased);
                  exactly B under rational arithmetic
 Meek family    : sum(tallies) + residual <= B everywhere, == B at the snapshots taken right after a
                  distribution (meek/warren 'iterate' and 'end'; meek-prf begin / in-iteration elect / tie /
                  pre-exclusion defeat / end) -- the meek-prf 'round' and 'remaining' snapshots, taken after an
                  excluded tally was zeroed, are the carve-out the property (and C08) names
 QPQ            : sum over ballots of weight*multiplier == number of candidates elected by quotient, in
                  Guarded's own '=='; weights >= 0
 everywhere     : no tally, non-transferable total or residual is negative
"""
from .. import ecase, families, configs, spaces
from ..driver import Check, h64
from . import common


def meek_equality_snapshot(rule, s):
    if rule in ('meek', 'warren'):
        return s.tag in ('iterate', 'end')
    if s.tag in ('begin', 'tie', 'end'):
        return True
    if s.tag == 'elect':
        return s.msg.startswith('Elect: ')
    if s.tag == 'defeat':
        return not s.msg.startswith('Defeat remaining')
    return False


class C02(Check):
    pid = 'C02'
    level = 'model_checking'
    rule = ('C01 case space with ballot snapshots kept, plus weighted W(3,3,3,{2,3,5}) (thorough {1,2,3,5,8}) profiles for the Gregory rules under the '
            'arithmetic menu (long fractional transfer values); equal-rank profiles only for meek/warren (4-candidate QW(4) family; thorough also Q(3,<=4)). '
            'states = distinct (method, tallies, nt/residual) snapshots, transitions = distinct consecutive pairs, '
            'traces_validated = real counts whose every snapshot satisfied the conservation model. '
            'non-trivial = counts containing a surplus transfer (a ballot weight decreased) or, meek family, more than one iteration round')
    assumptions = ['bounded election sizes', 'B = ElectionProfile.nBallots (C15 checks it is the sum of kept multipliers)',
                   'equal-rank ballots are read only by meek/warren; other rules count them in B but never credit them (scope limit, not asserted)']
    budget = {'quick': 240, 'thorough': 3000}

    def cases(self, tier):
        yield from families.standard(tier)
        mw = [{'rule': 'meek'}, {'rule': 'warren'}, {'rule': 'meek', 'arithmetic': 'fixed', 'precision': 4}]
        yield from families.seats_ties(4, spaces.QW(4), seats=(1, 2), ties='id', cfgs=mw if tier == 'quick' else mw + configs.meek_menu()[::5])
        greg = [{'rule': r} for r in configs.GREGORY] + configs.wigm_menu(full=False)
        yield from families.seats_ties(3, spaces.HUGE(3), seats=(1, 2), ties='id', cfgs=greg[:7])    # piles of ~10^5 ballots
        if tier == 'quick':
            yield from families.seats_ties(3, spaces.W(3, 3, 3, (2, 3, 5)), seats=(1, 2), ties='id', cfgs=greg[:7] + greg[7::4])
        else:
            yield from families.seats_ties(3, spaces.W(3, 3, 3, (1, 2, 3, 5, 8)), seats=(1, 2), ties='id', cfgs=greg)

    def check(self, case, acc):
        for cfg, t, one in common.runs(case, snapshots=True):
            acc.evaluations += 1
            rule = cfg['rule']
            if t.E is None or t.kind is None:
                acc.violation('C02|%s|%s' % (rule, common.exc_sig(t)), 'no election: %r' % t.exc, one)
                continue
            B = t.profile.nBallots * t.scale
            mults = [b.multiplier for b in t.E.ballots]
            mults = [t.units(m) // t.scale if t.kind != 'rational' else int(m) for m in mults]
            nB = t.profile.nBallots
            exact = t.kind == 'rational'
            ntrans = 0
            prevb = None
            prevkey = None
            bad = False
            nrounds = 0
            remaining_elected = 0
            for s in common.steps(t):
                where = 'action %d (%s: %s) of %s' % (s.i, s.tag, s.msg, ecase.short(case, cfg))
                if s.tag == 'round':
                    nrounds += 1
                tot = sum(s.vote.values())
                if any(v < 0 for v in s.vote.values()) or (s.nt is not None and s.nt < 0) or \
                        (s.residual is not None and s.residual < 0):
                    acc.violation('C02|%s|negative' % rule, 'negative tally/non-transferable/residual at ' + where, one)
                    bad = True
                if t.method == 'wigm':
                    if prevb is not None and s.ballots is not None and any(b[1] < pb[1] for b, pb in zip(s.ballots, prevb)):
                        ntrans += 1
                    tot += s.nt
                    if tot > B:
                        acc.violation('C02|%s|created' % rule, 'total %s exceeds ballots %s at %s' % (tot, B, where), one)
                        bad = True
                    elif exact and tot != B:
                        acc.violation('C02|%s|lost-exact' % rule, 'total %s != ballots under exact arithmetic at %s' % (tot, where), one)
                        bad = True
                    elif tot < B - 2 * nB * ntrans:
                        acc.violation('C02|%s|lost' % rule, 'total %s below ballots %s by more than 2 units x %d ballots x %d transfers at %s'
                                      % (tot, B, nB, ntrans, where), one)
                        bad = True
                    key = h64(('w', tuple(sorted(s.vote.items())), s.nt))
                elif t.method == 'meek':
                    tot += s.residual
                    if tot > B:
                        acc.violation('C02|%s|created' % rule, 'votes+residual %s exceeds ballots %s at %s' % (tot, B, where), one)
                        bad = True
                    elif meek_equality_snapshot(rule, s) and tot != B:
                        acc.violation('C02|%s|not-conserved' % rule, 'votes+residual %s != ballots %s at %s' % (tot, B, where), one)
                        bad = True
                    key = h64(('m', tuple(sorted(s.vote.items())), s.residual))
                else:   # qpq
                    if s.tag == 'elect' and s.msg.startswith('Elect remaining'):
                        remaining_elected += 1
                    wsum = sum(w * m for (_, w), m in zip(s.ballots, mults))
                    if any(w < 0 for _, w in s.ballots):
                        acc.violation('C02|qpq|negative', 'negative ballot contribution at ' + where, one)
                        bad = True
                    nel = sum(1 for x in s.st.values() if x == 'elected') - remaining_elected
                    if s.tag != 'elect' and not common.g_eq(t, wsum, nel * t.scale):
                        acc.violation('C02|qpq|elected-sum', 'ballots have elected %s candidates in total, %d are elected by quotient, at %s'
                                      % (wsum, nel, where), one)
                        bad = True
                    key = h64(('q', tuple(sorted(s.st.items())), wsum))
                acc.states.add(key)
                if prevkey is not None and prevkey != key:
                    acc.transitions.add(h64((prevkey, key)))
                prevkey = key
                if s.ballots is not None:
                    prevb = s.ballots
            if not bad and t.ok():
                acc.traces_validated += 1
            if ntrans or (t.method == 'meek' and nrounds > 1) or (t.method == 'qpq' and nrounds > 1):
                acc.nontrivial.add(h64((case['n'], case['s'], case['b'], case.get('tie'), case.get('wd'), case.get('ud'), configs.cfg_key(cfg))))
                acc.stats['surplus_transfers'] += ntrans
                if ntrans >= 2:
                    acc.stats['counts_with_2+_surplus_transfers'] += 1
                if len(acc.nontrivial) % 60000 == 1:
                    acc.sample({'case': ecase.short(case, cfg), 'units_per_vote': str(t.scale),
                                'totals': [str(sum(s.vote.values()) + (s.nt if s.nt is not None else (s.residual or 0)))
                                           for s in common.steps(t)][:12]})


CHECK = C02()
