"""C09 -- candidate status only moves forward; seats never over/under-committed; rounds never decrease.

Model: a five-state automaton per candidate {withdrawn, hopeful, pending, elected, defeated} with edges
hopeful->pending->elected, hopeful->elected, hopeful->defeated and, only under qpq and only on the 'round'
action that follows an exclusion, elected->hopeful.  Every consecutive pair of snapshots of every real count
must be a transition of the model; global invariants are evaluated in every snapshot.
"""
from .. import ecase, families, configs, trace
from ..driver import Check, h64
from . import common

EDGES = {('hopeful', 'pending'), ('pending', 'elected'), ('hopeful', 'elected'), ('hopeful', 'defeated')}


def model_step(prev, cur, rule, tag, restart_window):
    '''is prev -> cur a transition of the status automaton? returns None or a reason.
    restart_window: (qpq) the previous snapshot was the 'round' action that follows an exclusion -- droop logs
    the new round first and un-elects right after it, so the restart shows in the first snapshot after it.'''
    for c, (a, b) in enumerate(zip(prev, cur), 1):
        if a == b:
            continue
        if (a, b) in EDGES:
            continue
        if rule == 'qpq' and restart_window and (a, b) == ('elected', 'hopeful'):
            continue
        return 'candidate %d: %s -> %s at %s' % (c, a, b, tag)
    return None


class C09(Check):
    pid = 'C09'
    level = 'model_checking'
    rule = ('same case space as C01 (profiles x seats x ties x withdrawn/undeclared x 11 rules x option menus); '
            'states = distinct (rule-method, seats, status vector) abstract states seen in real snapshots, transitions = '
            'distinct consecutive status-vector pairs, each checked to be a transition of the 5-state model; '
            'traces_validated = real counts whose every step was a model transition and satisfied the seat invariants. '
            'non-trivial = counts with a transfer / non-epilogue exclusion / >1 round')
    assumptions = ['bounded election sizes as in C01', 'status is read from the record snapshots (cstate.state / pending)']
    budget = {'quick': 240, 'thorough': 3000}

    def cases(self, tier):
        yield from families.standard(tier)
        # status bookkeeping must stay sane even when the arithmetic is far too coarse for the election (cf. C01)
        coarse = [{'rule': 'meek', 'arithmetic': 'guarded', 'precision': 2}, {'rule': 'warren', 'arithmetic': 'guarded', 'precision': 3},
                  {'rule': 'wigm', 'arithmetic': 'guarded', 'precision': 2}, {'rule': 'meek', 'arithmetic': 'guarded', 'precision': 1}]
        yield from families.repo_files(coarse, max_bytes=4000 if tier == 'quick' else 10 ** 7)

    def check(self, case, acc):
        n, s = case['n'], case['s']
        wd = set(case.get('wd') or ())
        ud = set(case.get('ud') or ())
        for cfg, t, one in common.runs(case, snapshots=False):
            acc.evaluations += 1
            rule = cfg['rule']
            if t.E is None:
                acc.violation('C09|%s|%s' % (rule, common.exc_sig(t)), 'no election: %r' % t.exc, one)
                continue
            # a count that died is still checked on the steps it recorded; the failure itself is C01's business
            electable = n - len(wd | ud) if rule == 'mpls' else n - len(wd)
            prev = None
            prev_round = 0
            after_excl = False
            window = False
            bad = False
            for i, A in enumerate(t.actions):
                if A['round'] < prev_round:
                    acc.violation('C09|%s|round-decreased' % rule, 'round %s after %s at action %d: %s'
                                  % (A['round'], prev_round, i, ecase.short(case, cfg)), one)
                    bad = True
                prev_round = A['round']
                if A['tag'] == 'log':
                    continue
                cur = trace.status_vector(A)
                nel = sum(1 for x in cur if x in ('elected', 'pending'))
                nhop = sum(1 for x in cur if x == 'hopeful')
                if rule == 'mpls':
                    # undeclared write-ins are not electable: they do not count as able to fill a seat
                    nhop_e = sum(1 for c, x in enumerate(cur, 1) if x == 'hopeful' and c not in ud)
                else:
                    nhop_e = nhop
                if nel > s:
                    acc.violation('C09|%s|over-elected' % rule, '%d elected+pending for %d seats at action %d (%s): %s'
                                  % (nel, s, i, A['msg'], ecase.short(case, cfg)), one)
                    bad = True
                if nel + nhop_e < min(s, electable):
                    acc.violation('C09|%s|under-committed' % rule,
                                  'elected+continuing=%d < %d fillable seats at action %d (%s): %s'
                                  % (nel + nhop_e, min(s, electable), i, A['msg'], ecase.short(case, cfg)), one)
                    bad = True
                acc.states.add(h64((t.method, s, cur)))
                if prev is not None:
                    why = model_step(prev, cur, rule, A['tag'], window)
                    if why:
                        acc.violation('C09|%s|bad-transition' % rule, '%s (%s): %s' % (why, A['msg'], ecase.short(case, cfg)), one)
                        bad = True
                    if prev != cur:
                        acc.transitions.add(h64((t.method, s, prev, cur)))
                        if rule == 'qpq' and 'hopeful' in cur and any(a == 'elected' and b == 'hopeful' for a, b in zip(prev, cur)):
                            acc.stats['qpq_restart_unelections'] += 1
                window = False
                if A['tag'] == 'defeat':
                    after_excl = True
                elif A['tag'] == 'round':
                    window = after_excl
                    after_excl = False
                prev = cur
            if not bad:
                acc.traces_validated += 1
            if common.nontrivial_trace(t):
                acc.nontrivial.add(h64((n, s, case['b'], case.get('tie'), case.get('wd'), case.get('ud'), configs.cfg_key(cfg))))
                if len(acc.nontrivial) % 40000 == 1:
                    acc.sample({'case': ecase.short(case, cfg),
                                'status_trace': ['%s:%s' % (A['tag'], ''.join(x[0] for x in trace.status_vector(A)))
                                                 for A in t.actions if A['tag'] != 'log']})


CHECK = C09()
