"""C07 -- only lowest candidates or sure losers are excluded; ties follow the tie order.

Decision model evaluated at every exclusion, surplus choice and tie of every enumerated real count:
  * single exclusion: the excluded candidate's tally (taken from the 'defeat' action's own snapshot: a candidate is logged as
    defeated before its tally is zeroed or redistributed) is <= every continuing tally -- meek family: <= lowest + total
    surplus; qpq: lowest quotient -- compared in the rule's own arithmetic (Guarded half-unit tolerance)
  * batch exclusion (sure loser / certain loser / batch / batch(zero); consecutive 'defeat' actions): sum of the batch tallies
    + all untransferred surplus < the lowest tally outside the batch; the batch is downward closed; elected + remaining
    continuing candidates >= seats (mpls undeclared write-ins, excluded by ordinance in round 2, are exempt from the
    sure-loser clause only)
  * rules that transfer one surplus at a time (wigm, wigm-prf(-batch), scotland, mpls): the transferred tally is the maximum
    over the pending (mpls: over hopefuls at or above the threshold)
  * ties: whenever the chosen candidate was not the unique extreme a 'tie' action immediately precedes, names exactly the
    tied set and chooses the first of them in the declared [tie] order; scotland: first the most recent earlier stage (the
    trace's own 'round' snapshots) at which exactly one of the tied candidates held the extreme tally decides ("by prior stage")
  * metamorphic: if a profile's count logs no tie under some tie order, its record is identical under every tie order
"""
import itertools
import json
import re
from .. import ecase, families, configs, spaces, trace
from ..driver import Check, h64
from . import common

TIE_RE = re.compile(r'^(Break tie[^\[]*)\[(.*)\] -> (.*)$')
BATCH_WORDS = ('sure loser', 'certain loser', 'batch', 'undeclared')
ONE_AT_A_TIME = ('wigm', 'wigm-prf', 'wigm-prf-batch', 'scotland', 'mpls')


class C07(Check):
    pid = 'C07'
    level = 'model_checking'
    rule = ('case = (profile, seats) run under ALL n! tie orders x 11 rules: U(3,<=4) all 6 orders (thorough also U(3,5), U(3,6)), U(2,<=8), 4-candidate W(4,2,3,{1,2}) under 6 of 24 orders '
            '(thorough all 24), bullets+one-pair profiles BP(4,3,1,{3..6}) and bullet piles BU(4) for the batch rules (sure-loser sets next to a pending surplus; thorough also W(4,2,4,{2,5,8})), 5-candidate W(5,2,3,{1,2}) and the bullets+pairs family BP(4) for scotland (ties resolved by a prior stage, incl. ties that two earlier stages decide differently). '
            'wigm/meek/warren under guarded default, fixed-4 and (thorough) rational. states = distinct decision snapshots (statuses + tallies at an exclusion / surplus choice), '
            'transitions = distinct (decision snapshot, chosen candidate(s)); traces_validated = real counts all of whose decisions conformed. '
            'non-trivial = counts containing a tie, a prior-stage resolution or a batch exclusion')
    assumptions = ['bounded election sizes', 'Scottish rule 49(2)/51(2) with three or more tied candidates is read as droop documents it: all tied candidates are kept while searching back until a stage with a unique extreme',
                   'candidate names contain no ", " (tie messages are parsed)']
    budget = {'quick': 240, 'thorough': 3000}

    def cases(self, tier):
        P = [{'rule': 'wigm', 'arithmetic': 'fixed', 'precision': 4}, {'rule': 'meek', 'arithmetic': 'fixed', 'precision': 4},
             {'rule': 'warren', 'arithmetic': 'fixed', 'precision': 3, 'omega': 2}, {'rule': 'wigm', 'integer_quota': True, 'arithmetic': 'integer'},
             {'rule': 'wigm', 'defeat_batch': 'zero', 'arithmetic': 'fixed', 'precision': 2}]
        D = configs.DEFAULTS + P
        q = tier == 'quick'

        def fam(n, profiles, seats, orders, cfgs):
            for b in profiles:
                for s in seats:
                    c = ecase.make(n, s, b)
                    c['orders'] = orders
                    c['cfgs'] = cfgs
                    yield c
        yield from fam(2, spaces.U(2, 0, 8), (1, 2), 'all', D)
        yield from fam(3, spaces.U(3, 0, 4), (1, 2, 3), 'all', configs.DEFAULTS + P[:3] if q else D)
        batch = [{'rule': 'wigm-prf-batch'}, {'rule': 'cfer-batch'}, {'rule': 'mpls'}, {'rule': 'meek'}, {'rule': 'warren', 'arithmetic': 'fixed', 'precision': 4}]
        yield from fam(4, spaces.W(4, 2, 3, (1, 2)), (1, 2, 3), 'idrev' if q else 'all', (configs.DEFAULTS + P[4:]) if q else D)
        yield from fam(5, spaces.BPS(5), (3, 4), 'id', batch[:2])
        yield from fam(6, spaces.BPS(6, (0, 1, 5), 1, (1,)), (3, 4), 'id', batch[:4])
        yield from fam(4, spaces.BP(4, 3, 1, (3, 4, 5, 6)), (1, 2, 3), 'idrev', batch)
        yield from fam(4, spaces.BU(4), (1, 2, 3), 'idrev', batch)
        yield from fam(5, spaces.W(5, 2, 3, (1, 2)), (1, 2), 'idrev', [{'rule': 'scotland'}, {'rule': 'wigm-prf-batch'}])
        yield from fam(4, spaces.BP(4), (1,), 'idrev', [{'rule': 'scotland'}])
        if not q:
            rat = [{'rule': 'wigm', 'arithmetic': 'rational'}, {'rule': 'wigm', 'arithmetic': 'guarded', 'precision': 4, 'guard': 0}]
            yield from fam(3, spaces.U(3, 0, 4), (1, 2, 3), 'all', rat)
            yield from fam(3, spaces.U(3, 5, 5), (1, 2, 3), 'all', configs.DEFAULTS)
            yield from fam(4, spaces.W(4, 2, 4, (2, 5, 8)), (1, 2, 3), 'idrev', batch)
            yield from fam(3, spaces.W(3, 3, 3, (1, 2, 3, 5, 8)), (1, 2), 'idrev', D)
            yield from fam(4, spaces.W(4, 2, 4, (1, 2)), (1, 2, 3), 'six', configs.DEFAULTS)
            yield from fam(5, spaces.W(5, 3, 3, (1, 2)), (1, 2), 'idrev', [{'rule': 'scotland'}])
            yield from fam(3, spaces.U(3, 6, 6), (1, 2, 3), 'idrev', configs.DEFAULTS)

    @staticmethod
    def orders(n, which):
        ident = tuple(range(1, n + 1))
        if which == 'id':
            return [ident]
        if which == 'all':
            return list(itertools.permutations(ident))
        if which == 'idrev':
            return [ident, tuple(reversed(ident))] if n > 1 else [ident]
        allp = list(itertools.permutations(ident))
        return [allp[i] for i in sorted({0, len(allp) - 1, len(allp) // 3, len(allp) // 2, 2 * len(allp) // 3 + 1, 5})]

    # ------------------------------------------------------------------
    def decisions(self, t, case, cfg, order, acc, one):
        rule = cfg['rule']
        n, seats = case['n'], case['s']
        names = common.names_of(t)
        byname = {v: k for k, v in names.items()}
        torder = {cid: i for i, cid in enumerate(order)}        # position in the declared tie order
        sts = common.steps(t)
        flags = {'tie': 0, 'prior': 0, 'batch': 0, 'prior_multi': 0}
        bad = []

        def viol(kind, msg, s):
            bad.append(kind)
            acc.violation('C07|%s|%s' % (rule, kind), '%s at action %d (%s: %s) of %s tie=%s'
                          % (msg, s.i, s.tag, s.msg, ecase.short(case, cfg), list(order)), one)

        def lt(a, b):
            return common.g_lt(t, a, b)

        def eq(a, b):
            return common.g_eq(t, a, b)

        stage_snaps = []          # scotland: snapshots of the 'round' actions (what E.rounds holds)

        def expect_tie(s, k, tied, key, extreme, reason_is_defeat):
            "the action before s (index k-1) must be a tie action naming `tied` and choosing per model; returns chosen cid"
            p = sts[k - 1] if k else None
            if p is None or p.tag != 'tie':
                viol('tie-not-logged', 'candidates %s are tied but no tie action precedes' % sorted(tied), s)
                return None
            m = TIE_RE.match(p.msg)
            if not m:
                viol('tie-message', 'cannot read tie message %r' % p.msg, p)
                return None
            flags['tie'] += 1
            listed = {byname.get(x) for x in m.group(2).split(', ')}
            chosen = byname.get(m.group(3))
            if listed != set(tied):
                viol('tie-set', 'tie lists %s, the tied candidates are %s' % (sorted(x for x in listed if x), sorted(tied)), p)
            want = None
            how = 'lot'
            if rule == 'scotland':
                for sn in reversed(stage_snaps):
                    vals = {c: sn.vote[c] for c in tied}
                    ext = min(vals.values()) if reason_is_defeat else max(vals.values())
                    at = [c for c in tied if vals[c] == ext]
                    if len(at) == 1:
                        want = at[0]
                        how = 'prior stage'
                        break
                if how == 'prior stage':
                    flags['prior'] += 1
                    # would scanning from the oldest stage have decided differently?
                    for sn in stage_snaps:
                        vals = {c: sn.vote[c] for c in tied}
                        ext = min(vals.values()) if reason_is_defeat else max(vals.values())
                        at = [c for c in tied if vals[c] == ext]
                        if len(at) == 1:
                            if at[0] != want:
                                flags['prior_multi'] += 1
                            break
                if ('prior stage' in m.group(1)) != (how == 'prior stage'):
                    viol('tie-method', 'tie logged as %r but the model resolves it by %s' % (m.group(1).strip(), how), p)
            if want is None:
                want = min(tied, key=lambda c: torder[c])
            if chosen != want:
                viol('tie-choice', 'tie among %s resolved for %s, the %s gives %s' % (sorted(tied), chosen, how, want), p)
            return chosen

        k = 0
        while k < len(sts):
            s = sts[k]
            prev = sts[k - 1] if k else None
            if s.tag == 'round':
                stage_snaps.append(s)
            # ---------------------------------------------------------------- exclusions
            if s.tag == 'defeat' and 'remaining' not in s.msg and prev is not None:
                group = [s]
                j = k + 1
                while j < len(sts) and sts[j].tag == 'defeat' and 'remaining' not in sts[j].msg and any(w in sts[j].msg for w in BATCH_WORDS) \
                        and any(w in s.msg for w in BATCH_WORDS):
                    group.append(sts[j])
                    j += 1
                cids = [common.named(g.A, names) for g in group]
                # statuses just before the decision: skip a tie action that sits between
                before = prev if prev.tag != 'tie' else (sts[k - 2] if k >= 2 else prev)
                hopeful = [c for c, x in before.st.items() if x == 'hopeful']
                if rule == 'qpq':
                    val = {c: t.units(s.A['cstate'][c]['quotient']) for c in hopeful}
                else:
                    val = {c: s.vote[c] for c in hopeful}
                acc.states.add(h64((t.method, tuple(sorted(before.st.items())), tuple(sorted(val.items())))))
                acc.transitions.add(h64((t.method, tuple(sorted(before.st.items())), tuple(sorted(val.items())), tuple(sorted(x for x in cids if x)))))
                if None in cids or any(c not in hopeful for c in cids):
                    viol('excluded-not-continuing', 'exclusion names %s, continuing were %s' % (cids, sorted(hopeful)), s)
                elif any(w in s.msg for w in BATCH_WORDS):
                    flags['batch'] += 1
                    ud = set(case.get('ud') or ())
                    losers = [c for c in cids if not (rule == 'mpls' and c in ud and 'undeclared' in group[cids.index(c)].msg)]
                    outside = [c for c in hopeful if c not in cids]
                    sur = sum(max(0, v - s.q) for c, v in s.vote.items()
                              if before.st[c] in ('pending', 'elected') or (rule == 'mpls' and before.st[c] == 'hopeful' and c not in ud))
                    nel = sum(1 for x in before.st.values() if x in ('elected', 'pending'))
                    if nel + len(outside) < min(seats, n - len(case.get('wd') or ()) - (len(ud) if rule == 'mpls' else 0)):
                        viol('batch-too-large', 'batch %s leaves %d elected + %d continuing for %d seats' % (cids, nel, len(outside), seats), s)
                    if losers and outside:
                        bsum = sum(val[c] for c in losers)
                        lo = min(val[c] for c in outside)
                        if not lt(bsum + sur, lo):
                            viol('batch-not-sure-losers', 'batch %s holds %s + surplus %s, not below the next tally %s' % (losers, bsum, sur, lo), s)
                        hi = max(val[c] for c in losers)
                        if any(not lt(hi, val[c]) for c in outside):
                            viol('batch-not-downward-closed', 'a candidate outside batch %s has no more votes than one inside' % losers, s)
                else:
                    c = cids[0]
                    lo = min(val.values())
                    sur = s.surplus if t.method == 'meek' else 0
                    if lt(lo + sur, val[c]):
                        viol('not-lowest', 'candidate %s excluded with %s, the lowest continuing tally is %s%s'
                             % (c, val[c], lo, ' (+ surplus %s)' % sur if sur else ''), s)
                    tied = [x for x in hopeful if not lt(lo + sur, val[x])]
                    if len(tied) > 1:
                        ch = expect_tie(s, k, tied, val, lo, True)
                        if ch is not None and ch != c:
                            viol('tie-ignored', 'tie resolved for %s but %s was excluded' % (ch, c), s)
                    elif prev.tag == 'tie':
                        viol('spurious-tie', 'a tie action precedes although %s was the unique lowest' % c, s)
                k = j
                continue
            # ---------------------------------------------------------------- surplus choice
            chosen = None
            if rule in ONE_AT_A_TIME and prev is not None:
                if rule == 'mpls' and s.tag == 'elect' and s.msg.startswith('Elect: '):
                    before = prev if prev.tag != 'tie' else sts[k - 2]
                    pool = [c for c, x in before.st.items() if x == 'hopeful' and s.vote[c] >= s.q]
                    chosen = common.named(s.A, names)
                elif rule != 'mpls' and s.tag == 'unpend' and s.msg.startswith('Transfer'):
                    before = prev if prev.tag != 'tie' else sts[k - 2]
                    pool = [c for c, x in before.st.items() if x == 'pending']
                    chosen = common.named(s.A, names)
                if chosen is not None:
                    acc.states.add(h64((t.method, 'S', tuple(sorted(before.st.items())), tuple(sorted(s.vote.items())))))
                    acc.transitions.add(h64((t.method, 'S', tuple(sorted(before.st.items())), tuple(sorted(s.vote.items())), chosen)))
                    if chosen not in pool:
                        viol('surplus-not-pending', 'surplus of %s transferred, candidates with a surplus pending were %s' % (chosen, pool), s)
                    else:
                        hi = max(s.vote[c] for c in pool)
                        if lt(s.vote[chosen], hi):
                            viol('not-largest-surplus', 'surplus of %s (%s) transferred while %s is pending' % (chosen, s.vote[chosen], hi), s)
                        tied = [c for c in pool if eq(s.vote[c], hi)]
                        if len(tied) > 1:
                            ch = expect_tie(s, k, tied, s.vote, hi, False)
                            if ch is not None and ch != chosen:
                                viol('tie-ignored', 'tie resolved for %s but the surplus of %s was transferred' % (ch, chosen), s)
                        elif prev.tag == 'tie':
                            viol('spurious-tie', 'a tie action precedes although %s had the unique largest surplus' % chosen, s)
            if rule == 'qpq' and s.tag == 'elect' and s.msg.startswith('Elect high') and prev is not None:
                before = prev if prev.tag != 'tie' else sts[k - 2]
                hop = [c for c, x in before.st.items() if x == 'hopeful' or (x == 'elected' and s.st[c] == 'hopeful') or c == common.named(s.A, names)]
                quot = {c: t.units(s.A['cstate'][c]['quotient']) for c in hop if s.A['cstate'][c].get('quotient') is not None}
                c = common.named(s.A, names)
                hi = max(quot.values())
                if lt(quot[c], hi):
                    viol('not-highest-quotient', 'candidate %s elected with quotient %s, the highest is %s' % (c, quot[c], hi), s)
                tied = [x for x in quot if eq(quot[x], hi)]
                if len(tied) > 1:
                    ch = expect_tie(s, k, tied, quot, hi, False)
                    if ch is not None and ch != c:
                        viol('tie-ignored', 'tie resolved for %s but %s was elected' % (ch, c), s)
            k += 1
        return bad, flags

    def check(self, case, acc):
        n = case['n']
        orders = self.orders(n, case['orders'])
        for cfg in case['cfgs']:
            rule = cfg['rule']
            recs = []
            for order in orders:
                c1 = dict(case, tie=list(order) if order != tuple(range(1, n + 1)) else None)
                one = dict(c1, cfgs=[cfg], orders='given', given=[list(order)])
                t = trace.run(ecase.text(c1), cfg, snapshots=False)
                acc.evaluations += 1
                if not t.ok():
                    acc.violation('C07|%s|%s' % (rule, common.exc_sig(t)), 'count failed: %r on %s' % (t.exc, ecase.short(c1, cfg)), one)
                    continue
                bad, flags = self.decisions(t, c1, cfg, order, acc, one)
                if not bad:
                    acc.traces_validated += 1
                for f, v in flags.items():
                    if v:
                        acc.stats['counts_with_' + f] += 1
                if flags['tie'] or flags['batch']:
                    acc.nontrivial.add(h64((n, case['s'], case['b'], order, configs.cfg_key(cfg))))
                    if len(acc.nontrivial) % 30000 == 1:
                        acc.sample({'case': ecase.short(c1, cfg), 'tie_order': list(order),
                                    'decisions': [A['msg'] for A in t.actions if A['tag'] in ('tie', 'defeat', 'unpend')][:10]})
                has_tie = any(A['tag'] == 'tie' for A in t.actions)
                acts = [(A['tag'], A['msg'], A['round'], str(A.get('quota')),
                         tuple(sorted((k, d['state'], str(d.get('vote')), str(d.get('pending'))) for k, d in A.get('cstate', {}).items())))
                        for A in t.actions]
                recs.append((order, has_tie, acts))
            free = [r for r in recs if not r[1]]
            if free:
                acc.stats['metamorphic_groups_without_tie'] += 1
                ref = free[0]
                for r in recs:
                    if r[2] != ref[2]:
                        one = dict(case, cfgs=[cfg], orders='given', given=[list(ref[0]), list(r[0])])
                        acc.violation('C07|%s|order-dependence' % rule,
                                      'no tie is logged under tie order %s, yet the record under order %s differs: %s'
                                      % (list(ref[0]), list(r[0]), ecase.short(case, cfg)), one)
                        break

    def orders_for(self, case):
        if case.get('orders') == 'given':
            return [tuple(o) for o in case['given']]
        return self.orders(case['n'], case['orders'])


_orig_check = C07.check


def _check(self, case, acc):
    if case.get('orders') == 'given':
        real = self.orders
        self.orders = lambda n, which: [tuple(o) for o in case['given']]
        try:
            return _orig_check(self, case, acc)
        finally:
            self.orders = real
    return _orig_check(self, case, acc)


C07.check = _check
CHECK = C07()
