"""Sharded exhaustive driver: enumerate a finite case space, run the property's oracle on the
real code for every case, merge coverage, confirm + write replays, match known findings,
write the evidence file.

A property module provides a subclass of Check.  Workers are 16 long-lived forked processes
(no fork per execution); shard s handles the cases with index % NSHARDS == s, in index order
(simplest first), until its wall-clock deadline.  A run that hits the deadline reports
exhaustive:false together with the index below which everything was covered.
"""
import hashlib
import json
import multiprocessing as mp
import os
import subprocess
import sys
import time
import traceback
from collections import Counter

VERIF = os.path.dirname(os.path.dirname(os.path.abspath(__file__)))
NWORKERS = int(os.environ.get('VERIF_WORKERS', '16'))
MAX_SAMPLES = 6


def h64(obj):
    "stable 64-bit hash of a canonical (repr-able) object; never the builtin hash()"
    return int.from_bytes(hashlib.blake2b(repr(obj).encode(), digest_size=8).digest(), 'big')


class Acc:
    "what one worker accumulates"

    def __init__(self):
        self.evaluations = 0          # executions of the real code (counts, parses, ops)
        self.cases = 0
        self.stats = Counter()
        self.nontrivial = set()       # h64 keys of distinct non-trivial cases
        self.nontrivial_count = 0     # non-trivial cases that are distinct by construction (disjoint grids)
        self.states = set()
        self.transitions = set()
        self.traces_validated = 0
        self.violations = {}          # signature -> (case_index, case, message)
        self.samples = []
        self.notes = set()
        self.case_index = -1
        self.case = None

    def violation(self, signature, message, case=None):
        "record a violation of the current case (smallest case index wins per signature)"
        case = self.case if case is None else case
        old = self.violations.get(signature)
        if old is None or self.case_index < old[0]:
            self.violations[signature] = (self.case_index, case, message)
        self.stats['violations_raw'] += 1

    def sample(self, obj):
        if len(self.samples) < MAX_SAMPLES:
            self.samples.append(obj)

    def merge(self, other):
        self.evaluations += other.evaluations
        self.cases += other.cases
        self.stats.update(other.stats)
        self.nontrivial |= other.nontrivial
        self.nontrivial_count += other.nontrivial_count
        self.states |= other.states
        self.transitions |= other.transitions
        self.traces_validated += other.traces_validated
        self.notes |= other.notes
        for sig, v in other.violations.items():
            old = self.violations.get(sig)
            if old is None or v[0] < old[0]:
                self.violations[sig] = v
        for s in other.samples:
            if len(self.samples) < MAX_SAMPLES:
                self.samples.append(s)


class Check:
    "base class of a property check"
    pid = None
    level = 'exploration'           # evidence level
    rule = ''                       # how cases are enumerated / what is non-trivial
    assumptions = []
    budget = {'quick': 240, 'thorough': 3000}
    parallel = True

    def cases(self, tier):          # pragma: no cover
        "yield JSON-able cases, simplest first"
        raise NotImplementedError

    def check(self, case, acc):     # pragma: no cover
        "run the real code on one case and evaluate the oracle; record into acc"
        raise NotImplementedError

    def pinned(self):
        "cases that are always run first (the inputs of known findings)"
        return [f['case'] for f in known_findings().get('findings', [])
                if f.get('property') == self.pid and f.get('case') is not None]

    def finish(self, acc, tier):
        "hook: post-processing in the parent after the merge (may add violations)"

    def coverage_extra(self, acc, tier):
        return {}


_KF = None


def known_findings():
    global _KF
    if _KF is None:
        path = os.path.join(VERIF, 'known_findings.json')
        _KF = json.load(open(path)) if os.path.exists(path) else {}
    return _KF


def _all_cases(check, tier):
    for c in check.pinned():
        yield c
    for c in check.cases(tier):
        yield c


def _worker(args):
    check, tier, shard, nshards, deadline = args
    acc = Acc()
    total = 0
    cut = None
    try:
        for idx, case in enumerate(_all_cases(check, tier)):
            total = idx + 1
            if idx % nshards != shard:
                continue
            if cut is not None:
                continue
            if time.time() > deadline:
                cut = idx
                continue
            acc.case_index = idx
            acc.case = case
            acc.cases += 1
            check.check(case, acc)
    except BaseException:     # harness bug: must be loud
        return ('error', traceback.format_exc(), shard)
    return ('ok', acc, total, cut)


def git_head(path):
    try:
        return subprocess.run(['git', '-C', path, 'rev-parse', 'HEAD'], capture_output=True,
                              text=True, check=False).stdout.strip()
    except OSError:
        return ''


def run_check(check, tier, seed=0):
    "explore, report; returns the process exit code"
    from . import repo
    t0 = time.time()
    budget = float(os.environ.get('VERIF_BUDGET', check.budget[tier]))
    deadline = t0 + budget
    nshards = NWORKERS if check.parallel else 1
    # VERIF_SEED only rotates which worker starts with which shard; coverage is seed independent
    order = [(s + seed) % nshards for s in range(nshards)]
    jobs = [(check, tier, s, nshards, deadline) for s in order]
    if nshards == 1:
        results = [_worker(jobs[0])]
    else:
        ctx = mp.get_context('fork')
        with ctx.Pool(nshards) as pool:
            results = pool.map(_worker, jobs, chunksize=1)
    acc = Acc()
    total = 0
    cuts = []
    for r in results:
        if r[0] == 'error':
            print('HARNESS ERROR in shard %s:\n%s' % (r[2], r[1]))
            return 2
        acc.merge(r[1])
        total = max(total, r[2])
        if r[3] is not None:
            cuts.append(r[3])
    check.finish(acc, tier)
    exhaustive = not cuts
    covered_below = min(cuts) if cuts else total

    #  confirm violations in this process (from the case alone), write replays, match known findings
    kf = known_findings()
    known = {f['signature']: f for f in kf.get('findings', []) if f.get('property') == check.pid}
    code = 0
    nviol = 0
    lines = []
    for sig in sorted(acc.violations, key=lambda s: (acc.violations[s][0], s)):
        idx, case, message = acc.violations[sig]
        if case is not None:
            re_acc = Acc()
            re_acc.case_index = idx
            re_acc.case = case
            check.check(case, re_acc)
            if sig not in re_acc.violations:
                if 'timeout' in sig or 'slow' in sig or 'hang' in sig:
                    # a time-based outcome that does not reproduce alone is load, not the code under test
                    print('note: %r of case %r was seen once under load and did not reproduce; ignored' % (sig, case))
                    continue
                # The harness has no randomness (fixed hash seed, index-ordered enumeration): an oracle failure that a worker saw after
                # other cases but that does not reproduce from the case alone means the result depends on what ran before in the process.
                message = '%s [HISTORY-DEPENDENT: seen in a worker process after earlier cases, not reproducible from this case alone]' % message
        if sig in known:
            lines.append('KNOWN-FINDING: property=%s %s' % (check.pid, known[sig].get('what', sig)))
            continue
        nviol += 1
        path = write_replay(check.pid, sig, message, case)
        print('violation: %s :: %s' % (sig, message))
        lines.append('VIOLATION property=%s replay=%s' % (check.pid, path))
        code = 1
    wall = time.time() - t0

    cov = {
        'evaluations': acc.evaluations,
        'distinct_nontrivial': len(acc.nontrivial) + acc.nontrivial_count,
        'rule': check.rule,
        'samples': acc.samples,
        'exhaustive': exhaustive,
        'cases_enumerated': total,
        'cases_checked': acc.cases,
        'all_cases_covered_below_index': covered_below,
        'stats': dict(sorted(acc.stats.items())),
        'signatures_seen': sorted(acc.violations),
        'workers': nshards,
        'budget_s': budget,
        'repo': repo.REPO,
        'repo_head': git_head(repo.REPO),
    }
    if check.level == 'model_checking':
        cov['states'] = len(acc.states)
        cov['transitions'] = len(acc.transitions)
        cov['traces_validated_against_impl'] = acc.traces_validated
    cov.update(check.coverage_extra(acc, tier))
    if acc.notes:
        cov['notes'] = sorted(acc.notes)
    ev = {
        'property_id': check.pid,
        'tier': tier,
        'seed': seed,
        'level': check.level,
        'coverage': cov,
        'assumptions': list(check.assumptions),
        'wall_s': round(wall, 2),
        'violations': nviol,
    }
    evdir = os.environ.get('VERIF_EVIDENCE_DIR') or os.path.join(VERIF, 'evidence')
    os.makedirs(evdir, exist_ok=True)
    with open(os.path.join(evdir, '%s.json' % check.pid), 'w') as f:
        json.dump(ev, f, indent=1, sort_keys=True, default=str)
        f.write('\n')
    print('%s %s: cases=%d/%d evaluations=%d nontrivial=%d states=%d transitions=%d traces=%d '
          'exhaustive=%s wall=%.1fs' % (check.pid, tier, acc.cases, total, acc.evaluations,
                                        len(acc.nontrivial) + acc.nontrivial_count, len(acc.states), len(acc.transitions),
                                        acc.traces_validated, exhaustive, wall))
    interesting = {k: v for k, v in acc.stats.items()}
    print('stats: %s' % json.dumps(dict(sorted(interesting.items()))))
    for ln in lines:
        print(ln)
    sys.stdout.flush()
    return code


def write_replay(pid, sig, message, case):
    d = os.environ.get('VERIF_REPLAY_DIR') or os.path.join(VERIF, 'replays')
    os.makedirs(d, exist_ok=True)
    path = os.path.join(d, '%s-%016x.json' % (pid, h64((sig, case))))
    with open(path, 'w') as f:
        json.dump({'property': pid, 'signature': sig, 'message': message, 'case': case}, f,
                  indent=1, default=str)
        f.write('\n')
    return path


def replay(check, path):
    "re-run exactly one recorded case with the plain oracle (no explorer)"
    data = json.load(open(path))
    case = _detuple(data['case'])
    acc = Acc()
    acc.case_index = 0
    acc.case = case
    check.check(case, acc)
    if acc.violations:
        for sig, (_, _, msg) in sorted(acc.violations.items()):
            print('violation: %s :: %s' % (sig, msg))
        kf = known_findings()
        known = {f['signature'] for f in kf.get('findings', []) if f.get('property') == check.pid}
        if all(s in known for s in acc.violations):
            print('(all signatures are listed known findings)')
            return 0
        print('VIOLATION property=%s replay=%s' % (check.pid, path))
        return 1
    print('replay of %s: property holds on this case' % path)
    return 0


def _detuple(x):
    "JSON turns tuples into lists; cases are compared/hashed structurally so lists are fine"
    return x
