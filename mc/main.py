"""bin/check <ID> [--tier quick|thorough] [--replay FILE]"""
import argparse
import importlib
import os
import sys


def main(argv=None):
    ap = argparse.ArgumentParser()
    ap.add_argument('pid')
    ap.add_argument('--tier', default=os.environ.get('VERIF_TIER', 'quick'), choices=['quick', 'thorough'])
    ap.add_argument('--replay')
    a = ap.parse_args(argv)
    mod = importlib.import_module('mc.props.%s' % a.pid.lower())
    check = mod.CHECK
    from . import driver
    seed = int(os.environ.get('VERIF_SEED', '0') or 0)
    if hasattr(check, 'run_custom'):
        return check.replay(a.replay) if a.replay else check.run_custom(a.tier, seed)
    if a.replay:
        return driver.replay(check, a.replay)
    return driver.run_check(check, a.tier, seed)


if __name__ == '__main__':
    sys.exit(main())
