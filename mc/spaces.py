"""Enumerators of the finite input spaces (pure itertools, deterministic order, simplest first)."""
import itertools
from collections import Counter


def rankings(n, maxlen=None):
    "all strict rankings of length 1..maxlen over candidates 1..n"
    maxlen = n if maxlen is None else maxlen
    out = []
    for L in range(1, maxlen + 1):
        out.extend(itertools.permutations(range(1, n + 1), L))
    return out


def U(n, nmin, nmax, maxlen=None):
    """every multiset of k unit ballots over R(n, maxlen), max(n, nmin) <= k <= nmax,
    presented canonically: identical ballots merged, multiplier = count"""
    R = rankings(n, maxlen)
    for k in range(max(n, nmin), nmax + 1):
        for ms in itertools.combinations_with_replacement(range(len(R)), k):
            c = Counter(ms)
            yield tuple((m, R[i]) for i, m in sorted(c.items()))


def W(n, maxlen, t, mults):
    "t distinct rankings of R(n, maxlen), each with a multiplier from mults, ballots >= n"
    R = rankings(n, maxlen)
    for combo in itertools.combinations(range(len(R)), t):
        for ms in itertools.product(mults, repeat=t):
            if sum(ms) >= n:
                yield tuple((m, R[i]) for i, m in zip(combo, ms))


def weak_rankings(n):
    "all weak rankings (ordered partitions of non-empty subsets) over 1..n, as tuples of tuples"
    out = []

    def rec(rest, acc):
        if acc:
            out.append(tuple(acc))
        items = sorted(rest)
        for r in range(1, len(items) + 1):
            for grp in itertools.combinations(items, r):
                rec(rest - set(grp), acc + [grp])
    rec(set(range(1, n + 1)), [])
    return sorted(set(out), key=lambda w: (sum(len(g) for g in w), len(w), w))


def Q(n, nmin, nmax):
    "multisets of unit ballots over weak rankings with at least one equal rank somewhere"
    R = weak_rankings(n)
    for k in range(max(n, nmin), nmax + 1):
        for ms in itertools.combinations_with_replacement(range(len(R)), k):
            if not any(len(g) > 1 for i in set(ms) for g in R[i]):
                continue
            c = Counter(ms)
            yield tuple((m, R[i]) for i, m in sorted(c.items()))


def subsets(items, minsize=0, maxsize=None):
    items = list(items)
    maxsize = len(items) if maxsize is None else maxsize
    for r in range(minsize, maxsize + 1):
        for s in itertools.combinations(items, r):
            yield s


def tie_orders(n, which='idrev'):
    ident = tuple(range(1, n + 1))
    if which == 'id':
        return [ident]
    if which == 'idrev':
        return [ident, tuple(reversed(ident))] if n > 1 else [ident]
    return list(itertools.permutations(ident))


def QW(n, mults=(1, 2)):
    """equal-rank profiles with n candidates: two distinct strict rankings of R(n,2) plus one weak ranking drawn from
    {a=b, a=b>c, c>a=b}, each with a multiplier from mults (ballots >= n); reaches 'every candidate of an equal-rank
    ballot excluded while the count goes on', which needs four candidates"""
    R = rankings(n, 2)
    weak = []
    for a, b in itertools.combinations(range(1, n + 1), 2):
        weak.append(((a, b),))
        for c in range(1, n + 1):
            if c not in (a, b):
                weak.append(((a, b), (c,)))
                weak.append(((c,), (a, b)))
    for i, j in itertools.combinations(range(len(R)), 2):
        for w in weak:
            for ms in itertools.product(mults, repeat=3):
                if sum(ms) >= n:
                    yield ((ms[0], R[i]), (ms[1], R[j]), (ms[2], w))


def BP(n, bmax=4, npairs=2, pmults=(1, 2)):
    """'bullets + pairs': a bullet pile of 0..bmax ballots for each of the n candidates plus npairs distinct two-preference
    ballot types (P Q) with multipliers from pmults.  Reaches multi-stage histories with few candidates: several successive
    exclusions whose transfers reorder the leaders (e.g. Scottish ties that two earlier stages decide differently)."""
    pairs = list(itertools.permutations(range(1, n + 1), 2))
    for bullets in itertools.product(range(bmax + 1), repeat=n):
        base = [(m, (c,)) for c, m in enumerate(bullets, 1) if m]
        for combo in itertools.combinations(pairs, npairs):
            for ms in itertools.product(pmults, repeat=npairs):
                if sum(bullets) + sum(ms) >= n:
                    yield tuple(base + [(m, p) for m, p in zip(ms, combo)])


def BU(n, mults=(0, 1, 2, 3, 5, 8, 13)):
    "bullet votes only, one pile per candidate with a size from mults (0 = no first preferences): large piles, exhausting surpluses"
    for ms in itertools.product(mults, repeat=n):
        if sum(ms) >= n:
            yield tuple((m, (c,)) for c, m in enumerate(ms, 1) if m)


def BPS(n, bullets=(0, 1, 5, 8), npairs=1, pmults=(5, 8, 13)):
    """bullet piles from a small set of sizes for each of n candidates + npairs two-preference types with large multipliers:
    five-candidate histories with an early winner whose surplus partly exhausts (quota high relative to the live votes) and a later
    winner elected by transfer while sure losers are present"""
    pairs = list(itertools.permutations(range(1, n + 1), 2))
    for bs in itertools.product(bullets, repeat=n):
        base = [(m, (c,)) for c, m in enumerate(bs, 1) if m]
        for combo in itertools.combinations(pairs, npairs):
            for ms in itertools.product(pmults, repeat=npairs):
                if sum(bs) + sum(ms) >= n:
                    yield tuple(base + [(m, p) for m, p in zip(ms, combo)])


def HUGE(n=3, base=100000, types=3):
    """piles of about `base` identical ballots: `types` distinct rankings of R(n,2), each with a multiplier in {base-1, base, base+1}.
    With tallies of 10^5 a surplus of one vote is a fraction below 10^-5 of the tally: re-valued ballots truncate to exactly zero under the
    5-digit rules, surpluses of a few units and tallies equal to the threshold in every decimal occur -- events that need tens of ballots
    otherwise."""
    R = rankings(n, 2)
    for combo in itertools.combinations(range(len(R)), types):
        for ms in itertools.product((base - 1, base, base + 1), repeat=types):
            yield tuple((m, R[i]) for m, i in zip(ms, combo))
