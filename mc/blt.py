"""Election structure -> BLT text (the canonical 'printer'; richer rendering menus live in props/c15.py)."""


def rank_tok(r):
    if isinstance(r, (tuple, list)):
        return '='.join(str(x) for x in r)
    return str(r)


def render(n, seats, ballots, tie=None, withdrawn=(), undeclared=(), names=None, title='T',
           droop_opts=None, nick=None):
    names = names or ['C%d' % i for i in range(1, n + 1)]
    out = ['%d %d' % (n, seats)]
    if nick:
        out.append('[nick %s]' % ' '.join(nick))
    if tie and tuple(tie) != tuple(range(1, n + 1)):
        out.append('[tie %s]' % ' '.join(str(x) for x in tie))
    if withdrawn:
        out.append('[withdrawn %s]' % ' '.join(str(x) for x in withdrawn))
    if undeclared:
        out.append('[undeclared %s]' % ' '.join(str(x) for x in undeclared))
    if droop_opts:
        out.append('[droop %s]' % ' '.join(droop_opts))
    for m, r in ballots:
        out.append('%d %s 0' % (m, ' '.join(rank_tok(x) for x in r)))
    out.append('0')
    out.extend('"%s"' % x for x in names)
    out.append('"%s"' % title)
    return '\n'.join(out) + '\n'
