"""Election cases: JSON-able dicts {n, s, b:[[m,[ranking]]...], tie, wd, ud} and helpers."""
from . import blt


def make(n, s, ballots, tie=None, wd=(), ud=()):
    return {'n': n, 's': s, 'b': [[m, list(r)] for m, r in ballots],
            'tie': list(tie) if tie else None, 'wd': list(wd), 'ud': list(ud)}


def text(case, **kw):
    if case.get('file'):
        from . import repo
        import os
        with open(os.path.join(repo.REPO, case['file']), encoding='utf-8-sig') as f:
            return f.read()
    return blt.render(case['n'], case['s'], [(m, r) for m, r in case['b']], tie=case.get('tie'),
                      withdrawn=case.get('wd') or (), undeclared=case.get('ud') or (), **kw)


def nballots(case):
    return sum(m for m, _ in case['b'])


def short(case, cfg=None):
    if case.get('file'):
        return '%s (%d candidates, %d seats)%s' % (case['file'], case['n'], case['s'], (' | ' + ' '.join('%s=%s' % kv for kv in sorted(cfg.items()))) if cfg else '')
    s = '%d cand %d seats: %s' % (case['n'], case['s'],
                                  '; '.join('%dx%s' % (m, '>'.join(_tok(x) for x in r)) for m, r in case['b']))
    if case.get('tie'):
        s += ' tie=%s' % case['tie']
    if case.get('wd'):
        s += ' withdrawn=%s' % case['wd']
    if case.get('ud'):
        s += ' undeclared=%s' % case['ud']
    if cfg:
        s += ' | ' + ' '.join('%s=%s' % kv for kv in sorted(cfg.items()))
    return s


def _tok(x):
    return '='.join(map(str, x)) if isinstance(x, (list, tuple)) else str(x)
