"""Arithmetic-class helpers: configure Fixed / Guarded / Rational exactly as an Election would."""
from fractions import Fraction
from .repo import Options, Fixed, Guarded, Rational


def init_fixed(p, display=None, integer=False):
    o = {'arithmetic': 'integer' if integer else 'fixed'}
    if not integer:
        o['precision'] = p
    if display is not None:
        o['display'] = display
    Fixed.initialize(Options(o))
    return Fixed


def init_guarded(p, g, display=None):
    o = {'arithmetic': 'guarded', 'precision': p, 'guard': g}
    if display is not None:
        o['display'] = display
    Guarded.initialize(Options(o))
    return Guarded


def init_rational(display=None):
    o = {'arithmetic': 'rational'}
    if display is not None:
        o['display'] = display
    Rational.initialize(Options(o))
    return Rational


def floor_div(a, b):
    "floor(a/b) for ints a, b (b != 0), toward minus infinity"
    return a // b


def ceil_div(a, b):
    return -((-a) // b)


BOUNDARY_BASE = [0, 1, -1]


def boundary(p):
    s = 10 ** p
    vals = {0, 1, -1, s - 1, -(s - 1), s, -s, s + 1, -(s + 1), 10 ** 18 - 1, 10 ** 18 + 1, -(10 ** 18 + 1),
            10 ** 40 + 7, -(10 ** 40 + 7), 3 * s + 7, -(3 * s + 7)}
    return sorted(vals)
