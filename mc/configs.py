"""Rule / option menus shared by the election-level checks."""
from .repo import RULES

STATUTORY = ['wigm-prf', 'wigm-prf-batch', 'meek-prf', 'scotland', 'mpls', 'cfer', 'cfer-batch', 'qpq']
PARAMETRIC = ['wigm', 'meek', 'warren']
ALL11 = sorted(STATUTORY + PARAMETRIC)
assert ALL11 == RULES, RULES
GREGORY = ['wigm', 'wigm-prf', 'wigm-prf-batch', 'cfer', 'cfer-batch', 'scotland', 'mpls']
MEEKFAM = ['meek', 'warren', 'meek-prf']
FAST5 = ['wigm-prf', 'scotland', 'mpls', 'cfer', 'wigm-prf-batch']

DEFAULTS = [{'rule': r} for r in ALL11]

WIGM_ARITH = [
    {'arithmetic': 'guarded', 'precision': 6, 'guard': 3},
    {'arithmetic': 'guarded', 'precision': 4, 'guard': 0},
    {'arithmetic': 'fixed', 'precision': 1},
    {'arithmetic': 'fixed', 'precision': 2},
    {'arithmetic': 'fixed', 'precision': 4},
    {'arithmetic': 'fixed', 'precision': 4, 'display': 2},     # display < precision must not touch the arithmetic
    {'arithmetic': 'fixed', 'precision': 9},
    {'arithmetic': 'integer'},
    {'arithmetic': 'rational'},
]


def wigm_menu(full=True):
    out = []
    for a in WIGM_ARITH:
        for iq in (False, True):
            for db in ('none', 'zero'):
                d = {'rule': 'wigm', 'integer_quota': iq, 'defeat_batch': db}
                d.update(a)
                out.append(d)
    return out if full else out[::3]


MEEK_ARITH = [
    {'arithmetic': 'guarded', 'precision': 6, 'guard': 3, 'omega': 3},
    {'arithmetic': 'guarded', 'precision': 4, 'guard': 0},
    {'arithmetic': 'fixed', 'precision': 2},
    {'arithmetic': 'fixed', 'precision': 2, 'omega': 4},     # omega below one unit: forces the stable-state exit
    {'arithmetic': 'fixed', 'precision': 4},
    {'arithmetic': 'fixed', 'precision': 4, 'omega': 4},
    {'arithmetic': 'fixed', 'precision': 5, 'display': 2},
    {'arithmetic': 'fixed', 'precision': 9},
]
#  very tight omega at very high precision: every iteration round needs hundreds of distributions
MEEK_DEEP = [{'rule': 'meek', 'arithmetic': 'guarded', 'precision': 150, 'guard': 150, 'omega': 140},
             {'rule': 'warren', 'arithmetic': 'fixed', 'precision': 130, 'omega': 120}]


def meek_menu(full=True, rules=('meek', 'warren')):
    out = []
    for r in rules:
        for a in MEEK_ARITH:
            for db in ('safe', 'none'):
                d = {'rule': r, 'defeat_batch': db}
                d.update(a)
                out.append(d)
    return out if full else out[::3]


def cfg_key(cfg):
    return tuple(sorted(cfg.items()))


def cfg_str(cfg):
    return ' '.join('%s=%s' % kv for kv in sorted(cfg.items()))
