"""Bounded exhaustive exploration ("model checking" family) of droop -- see /verif/DESIGN.md."""
