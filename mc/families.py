"""Families of election cases shared by the election-level checks.

A family yields case dicts (see ecase.make) that additionally carry 'cfgs': the list of
option dicts (each with 'rule') to run the case under.
"""
from . import spaces, ecase, configs


def with_cfgs(case, cfgs):
    c = dict(case)
    c['cfgs'] = cfgs
    return c


def valid_after_removal(n, s, ballots, removed):
    "is the profile still valid when `removed` candidates are withdrawn?"
    elig = n - len(removed)
    if elig < s or elig < 1:
        return False
    kept = sum(m for m, r in ballots if any(_members(x) - set(removed) for x in r))
    return kept >= elig


def _members(x):
    return set(x) if isinstance(x, (tuple, list)) else {x}


def seats_ties(n, profiles, seats=None, ties='idrev', cfgs=None):
    "profiles x seats x tie orders"
    for ballots in profiles:
        for s in (seats or range(1, n + 1)):
            for t in spaces.tie_orders(n, ties):
                yield with_cfgs(ecase.make(n, s, ballots, tie=t if t != tuple(range(1, n + 1)) else None), cfgs)


def withdrawn_family(n, profiles, cfgs, seats=None):
    "profiles x seats x every non-empty withdrawn subset that leaves a valid profile"
    for ballots in profiles:
        for s in (seats or range(1, n + 1)):
            for wd in spaces.subsets(range(1, n + 1), 1, n - 1):
                if valid_after_removal(n, s, ballots, wd):
                    yield with_cfgs(ecase.make(n, s, ballots, wd=wd), cfgs)


def undeclared_family(n, profiles, cfgs, seats=None):
    "profiles x seats x every non-empty undeclared subset (also those leaving fewer declared than seats)"
    for ballots in profiles:
        for s in (seats or range(1, n + 1)):
            for ud in spaces.subsets(range(1, n + 1), 1, n):
                yield with_cfgs(ecase.make(n, s, ballots, ud=ud), cfgs)


def withdrawn_undeclared_family(n, profiles, cfgs, seats=None):
    "every pair (withdrawn subset, undeclared subset) with a non-empty withdrawn set, overlapping ones included"
    for ballots in profiles:
        for s in (seats or range(1, n + 1)):
            for wd in spaces.subsets(range(1, n + 1), 1, n - 1):
                if not valid_after_removal(n, s, ballots, wd):
                    continue
                for ud in spaces.subsets(range(1, n + 1), 1, n):
                    yield with_cfgs(ecase.make(n, s, ballots, wd=wd, ud=ud), cfgs)


def corner_corpus(cfgs, seats=(2, 3)):
    """profiles found once by tools/find_corners.py (a strided offline sweep over 4-candidate, 4-5 ballot-type profiles) that reach rare
    arithmetic events of the 4/5-digit statutory rules which no small exhaustive space contains: a ballot re-valued to exactly zero by a
    positive surplus, a surplus of a few units, a ballot re-valued three times, Scottish ties decided by a prior stage.  The committed
    list mc/corpus.json is enumerated completely (x seats x the given configurations) like any other family."""
    import json
    import os
    path = os.path.join(os.path.dirname(os.path.abspath(__file__)), 'corpus.json')
    if not os.path.exists(path):
        return
    seen = set()
    for o in json.load(open(path)):
        c = o['case']
        key = json.dumps(c['b'])
        if key in seen:
            continue
        seen.add(key)
        for s in seats:
            yield with_cfgs(ecase.make(c['n'], s, [(m, tuple(r)) for m, r in c['b']]), cfgs)


_FILES = {}


def repo_files(cfgs, max_bytes=4000, extra=('test/blt/M135.blt', 'test/blt/scotland/Langside-2007.blt')):
    """the ballot files shipped with the repository's own tests (test/blt/**.blt), as inputs for the monitors: real elections of
    5-13 candidates and up to thousands of ballots.  Files are used only if the real parser accepts them."""
    import glob
    import os
    from . import repo
    key = (max_bytes, tuple(extra))
    if key not in _FILES:
        out = []
        root = os.path.join(repo.REPO, 'test', 'blt')
        paths = sorted(glob.glob(os.path.join(root, '*.blt')) + glob.glob(os.path.join(root, '*', '*.blt')))
        for path in paths:
            rel = os.path.relpath(path, repo.REPO)
            if os.path.getsize(path) > max_bytes and rel not in extra and not any(os.path.basename(rel) == os.path.basename(e) for e in extra):
                continue
            try:
                p = repo.ElectionProfile(path=path)
            except Exception:     # pylint: disable=broad-except
                continue
            if p.options:
                continue    # embedded [droop ...] options would fight the configuration under test
            out.append({'file': rel, 'n': p.nCand, 's': p.nSeats, 'b': rel, 'tie': None, 'wd': sorted(p.withdrawn), 'ud': sorted(p.undeclared),
                        'equal': bool(p.ballotLinesEqual)})
        _FILES[key] = out
    for c in _FILES[key]:
        if c['equal']:
            # equal-rank ballots are read only by the parametric meek / warren rules (scope limit of C02 and others)
            sub = [x for x in cfgs if x.get('rule') in ('meek', 'warren')]
            if sub:
                yield with_cfgs(c, sub)
        else:
            yield with_cfgs(c, cfgs)


def standard(tier, snapshots_cost=1.0):
    """the default mix used by the per-step monitors (C01, C02, C04, C09, C18):
    quick  : U(3,<=4) x s x T{id,rev} x 11 rules, U(3,5) x s x 11 rules; U(3,<=4) x s x every second entry of the option menus (thorough: all);
             U(3,<=4) x withdrawn subsets x 11 rules; x undeclared subsets x mpls(+wigm-prf); withdrawn x undeclared (overlapping) subsets x mpls; U(2,<=8);
             W(4,2,3,{1,2}) x s in {2,3} x 11 rules + wigm defeat_batch=zero (4 candidates: qpq restarts, 2-step transfers);
             five-candidate bullets+pair profiles BPS(5) x s in {3,4} and six-candidate BPS(6,{0,1,5}) for the batch rules (a winner elected by
             transfer next to sure losers, candidates without votes, four seats);
             the repository's own test ballot files (test/blt/**.blt: real elections of 5-13 candidates; quick: the small ones + M135 + one Glasgow ward);
             a committed corpus of corner profiles (mc/corpus.json: zero-truncation, tiny surplus, triple re-valuation, prior-stage ties);
             bullet piles BU(4) of sizes {0,1,2,3,5,8,13} x s in {1,2,3} (exhausting surpluses, tied tails)
    thorough adds U(3,6..7), weighted W spaces with 4 and 5 candidates, U(4,4) for five fast rules,
             equal-rank profiles Q(3,<=4) for meek/warren"""
    D = configs.DEFAULTS
    menus = configs.wigm_menu() + configs.meek_menu()
    ZB = [{'rule': 'wigm', 'defeat_batch': 'zero'}, {'rule': 'wigm', 'defeat_batch': 'zero', 'arithmetic': 'fixed', 'precision': 3},
          {'rule': 'wigm', 'arithmetic': 'fixed', 'precision': 4, 'display': 0}, {'rule': 'wigm', 'arithmetic': 'guarded', 'precision': 6, 'guard': 3, 'display': 0}]
    yield from seats_ties(2, spaces.U(2, 0, 8), cfgs=D)
    yield from seats_ties(3, spaces.U(3, 0, 4), cfgs=D)
    yield from seats_ties(3, spaces.U(3, 0, 4), ties='id', cfgs=menus if tier == 'thorough' else menus[::2])
    yield from withdrawn_family(3, spaces.U(3, 0, 4), D)
    yield from undeclared_family(3, spaces.U(3, 0, 4), [{'rule': 'mpls'}, {'rule': 'wigm-prf'}])
    yield from withdrawn_undeclared_family(3, spaces.U(3, 0, 3 if tier == 'quick' else 4), [{'rule': 'mpls'}])
    yield from seats_ties(4, spaces.W(4, 2, 3, (1, 2)), seats=(2, 3), ties='id', cfgs=D + ZB)
    yield from seats_ties(5, spaces.BPS(5), seats=(3, 4), ties='id', cfgs=[{'rule': 'cfer-batch'}, {'rule': 'wigm-prf-batch'}])
    yield from seats_ties(6, spaces.BPS(6, (0, 1, 5), 1, (1,)), seats=(3, 4), ties='id',
                          cfgs=[{'rule': 'cfer-batch'}, {'rule': 'wigm-prf-batch'}, {'rule': 'mpls'}, {'rule': 'meek'}])     # six candidates, several without votes
    yield from seats_ties(4, spaces.BU(4), seats=(1, 2, 3), ties='id', cfgs=D)
    yield from seats_ties(3, spaces.U(3, 5, 5), ties='id' if tier == 'quick' else 'idrev', cfgs=D)
    yield from repo_files(D + menus[::9], max_bytes=4000 if tier == 'quick' else 10 ** 7)
    yield from corner_corpus(D)
    if tier == 'thorough':
        mw = [{'rule': 'meek'}, {'rule': 'warren'}] + configs.meek_menu(full=False)
        yield from seats_ties(3, spaces.Q(3, 0, 4), ties='id', cfgs=mw)
        yield from seats_ties(3, spaces.W(3, 3, 3, (1, 2, 3, 5, 8)), seats=(1, 2), ties='id', cfgs=D + menus[::5])
        yield from seats_ties(3, spaces.U(3, 6, 6), cfgs=D)
        yield from seats_ties(4, spaces.W(4, 2, 4, (1, 2, 3)), seats=(1, 2, 3), ties='id', cfgs=D)
        yield from seats_ties(5, spaces.W(5, 2, 3, (1, 2, 4)), seats=(2, 3), ties='id', cfgs=D)
        yield from seats_ties(4, spaces.U(4, 4, 4), seats=(1, 2, 3), ties='id',
                              cfgs=[{'rule': r} for r in configs.FAST5])
        yield from seats_ties(4, spaces.W(4, 4, 3, (1, 2, 3)), seats=(2, 3), ties='id',
                              cfgs=[{'rule': r} for r in configs.FAST5])
        yield from seats_ties(3, spaces.U(3, 7, 7), ties='id', cfgs=D)
